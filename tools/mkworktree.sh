#!/bin/sh
# usage: mkworktree.sh <name>  -> creates /tmp/wt/<name> as a detached worktree of /repo HEAD
set -e
mkdir -p /tmp/wt
git -C /repo worktree add --detach "/tmp/wt/$1" HEAD >/dev/null 2>&1
[ -f /repo/src/grid/_version.py ] && cp /repo/src/grid/_version.py "/tmp/wt/$1/src/grid/_version.py"
echo "/tmp/wt/$1"
# optional 2nd arg: property id -> write agent instructions into the worktree
if [ -n "$2" ]; then python3 /verif/tools/agent_prompt.py "$2" "/tmp/wt/$1" > "/tmp/wt/$1/INSTRUCTIONS.md"; fi
