#!/bin/sh
# run every registered quick check for several seeds; print one line each (sanity before finishing)
for s in ${SEEDS:-0 1 2 3}; do
  for c in C01 C02 C03 C04 C05 C06 C07 C08 C09 C10 C11 C12 C13 C14 C15 C16 C17 C18 C19 C20; do
    out=$(VERIF_SEED=$s VERIF_NO_EVIDENCE=1 /verif/check $c 2>&1); rc=$?
    echo "seed=$s $c rc=$rc $(echo "$out" | tail -1 | cut -c1-140)"
    echo "$out" | grep -E "^VIOLATION|HARNESS" | head -3
  done
done
