#!/usr/bin/env python3
"""Print the prompt for a mutation sub-agent: tools/agent_prompt.py C12 /tmp/wt/m-c12"""
import json, sys
pid, wt = sys.argv[1], sys.argv[2]
p = next(json.loads(l) for l in open('/verif/properties.jsonl') if json.loads(l)['id'] == pid)
print(f"""You are helping to evaluate a verification effort for the Python library theochem/grid (numerical integration grids for quantum chemistry). Your job: write realistic *property-breaking* source changes ("seeded defects").

You have your own scratch git worktree of the library at {wt} (sources under {wt}/src/grid, tests under {wt}/src/grid/tests). Work ONLY inside {wt}. Do NOT read, list or touch /verif or /repo (they are off limits; anything there would bias the experiment), and do not touch other directories under /tmp/wt.

To run code against your worktree use:  cd {wt} && PYTHONPATH={wt}/src /venv/bin/python -W ignore your_script.py
To run the existing test suite against your worktree use:
  cd {wt} && PYTHONPATH={wt}/src /venv/bin/python -m pytest -q -p no:cacheprovider -x -n 6 --timeout=900 src/grid/tests
(the full suite takes several minutes; while developing, first run only the test files related to what you changed, then the full suite once per finished change. 598 tests pass and 1 is skipped on the unchanged tree.) There is no network. Do NOT use `git stash` (the stash is shared by all worktrees of the repository and other people work in sibling worktrees): to switch between the clean tree and your change use `git diff > seeded/X.diff; git checkout -- .; git apply seeded/X.diff`.

THE PROPERTY (id {pid}): {p['title']}
Statement: {p['statement']}
Quantified over: {p['quantifier']['text']}
Why the existing tests cannot settle it: {p['why_tests_cant']}
Code it is anchored in: {', '.join(p['anchors']['files'])}
Mechanisms meant to make it hold: {'; '.join(m['name'] + ' (' + m['where'] + ')' for m in p['anchors']['mechanism'])}

TASK: produce TWO independent changes (A and B) to the library source (not to tests or data files unless the property is about data files) such that, for each change taken alone:
 1. the library still imports and the ENTIRE existing test suite still passes (you must actually run the full suite with the change applied and confirm it);
 2. the property above is violated by the changed code, while it holds (for the same demonstration) on the unchanged code;
 3. the change is *realistic*: something a developer could plausibly commit (a refactoring slip, an "optimisation", an off-by-one, a dropped copy, a wrong branch condition, a caching shortcut, a swapped index, a sign or factor that only matters for some parameter values...), not a deliberate `if x == 42:` special case or random sabotage;
 4. the violation needs something SPECIFIC to manifest -- a particular multi-step sequence of calls, an unusual-but-legal input (a particular parity, size, parameter range, geometry, element, shape), a specific option combination, or two cooperating sites that each look fine alone -- i.e. NOT something ordinary use or the existing tests would expose at once. Prefer subtle over blatant. Make A and B different in kind (different functions / different mechanisms of the property).
Be careful that the unchanged code really satisfies your demonstration: the unchanged tree has some pre-existing defects, so pick behaviour that currently works.

DELIVERABLES, all inside {wt}/seeded/ (create it):
  A.diff, B.diff      -- `git diff` output of each change relative to the unchanged worktree HEAD (each applies alone with `git apply` on a clean tree);
  demo_A.py, demo_B.py -- small standalone scripts (run with the PYTHONPATH command above) that exit with status 0 and print PASS when the property holds and exit 1 printing FAIL (with the offending numbers) when it is violated; each must print PASS on the unchanged tree and FAIL with the corresponding change applied;
  notes.md            -- for each change: what it breaks, what exactly is needed for it to manifest, and the exact commands you ran (full-suite result line included).
Leave the worktree itself CLEAN at the end (git checkout -- . ; only the untracked seeded/ directory remains). Finally reply with a short summary of A and B (files touched, trigger condition, test-suite result).""")
