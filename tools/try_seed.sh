#!/bin/sh
# usage: tools/try_seed.sh <dir-with-seeded> <A|B> CNN [suite]
#  dir-with-seeded: e.g. /tmp/wt/m-c12/seeded ; applies <A|B>.diff to a scratch worktree of /repo HEAD,
#  runs demo on clean + patched tree, runs ./check CNN on the patched tree; with 4th arg "suite" also runs the test suite.
sd="$1"; ab="$2"; pid="$3"
dir="/tmp/wt/try-$$"
mkdir -p /tmp/wt
git -C /repo worktree add --detach "$dir" HEAD >/dev/null 2>&1
cp /repo/src/grid/_version.py "$dir/src/grid/_version.py" 2>/dev/null
echo "== demo on clean HEAD:"; (cd "$dir" && PYTHONPATH="$dir/src" timeout 900 /venv/bin/python -W ignore "$sd/demo_$ab.py" 2>&1 | tail -3; echo "exit=$?")
if ! git -C "$dir" apply "$sd/$ab.diff" && ! git -C "$dir" apply -C1 "$sd/$ab.diff" && ! (cd "$dir" && patch -p1 --fuzz=3 < "$sd/$ab.diff" >/dev/null); then echo "PATCH DOES NOT APPLY"; git -C /repo worktree remove --force "$dir"; exit 3; fi
echo "== demo on patched tree:"; (cd "$dir" && PYTHONPATH="$dir/src" timeout 900 /venv/bin/python -W ignore "$sd/demo_$ab.py" 2>&1 | tail -3)
echo "== check $pid on patched tree:"; VERIF_GRID_SRC="$dir/src" VERIF_NO_EVIDENCE=1 /verif/check "$pid" 2>&1 | grep -E "VIOLATION|key=|HARNESS|^\[" | cut -c1-260 | head -12
if [ "$4" = "suite" ]; then echo "== suite:"; (cd "$dir" && PYTHONPATH="$dir/src" /venv/bin/python -m pytest -q -p no:cacheprovider -n 8 --timeout=900 src/grid/tests 2>&1 | tail -1); fi
git -C /repo worktree remove --force "$dir"
