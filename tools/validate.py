#!/usr/bin/env python3-vt
"""Validate MANIFEST.json and every evidence file against the schemas (run with python3-vt)."""
import glob, json, sys, os
import jsonschema
root = os.path.dirname(os.path.dirname(os.path.abspath(__file__)))
ok = True
def val(path, schema):
    global ok
    try:
        jsonschema.validate(json.load(open(path)), json.load(open(schema)))
        print("ok     ", path)
    except Exception as exc:
        ok = False
        print("INVALID", path, str(exc).splitlines()[0])
val(os.path.join(root, "MANIFEST.json"), "/root/.vp/MANIFEST.schema.json")
man = json.load(open(os.path.join(root, "MANIFEST.json")))
for chk in man["checks"]:
    p = chk["evidence_file"]
    if os.path.exists(p):
        val(p, "/root/.vp/EVIDENCE.schema.json")
        ev = json.load(open(p))
        if ev["level"] != chk["level_claimed"]["category"]:
            ok = False; print("LEVEL MISMATCH", p)
    else:
        print("missing", p)
ids = {json.loads(l)["id"] for l in open(os.path.join(root, "properties.jsonl"))}
claimed = {c["property_id"] for c in man["checks"]}
na = {c["property_id"] for c in man.get("not_applicable", [])}
if claimed | na != ids or claimed & na:
    ok = False; print("properties not partitioned:", sorted(ids - claimed - na), sorted(claimed & na))
sys.exit(0 if ok else 1)
