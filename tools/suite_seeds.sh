#!/bin/sh
# Run the repository's test suite on /repo HEAD + each kept seeded patch (those whose meta says pending); record result in meta.json.
for d in /verif/seeded/${SUITE_GLOB:-*}/; do
  id=$(basename "$d")
  grep -q '"suite_with_patch_on_current_HEAD": "pending' "$d/meta.json" || continue
  dir="/tmp/wt/suite-$id"
  git -C /repo worktree add --detach "$dir" HEAD >/dev/null 2>&1
  cp /repo/src/grid/_version.py "$dir/src/grid/_version.py" 2>/dev/null
  if git -C "$dir" apply "$d/patch.diff"; then
    line=$(cd "$dir" && PYTHONPATH="$dir/src" /venv/bin/python -m pytest -q -p no:cacheprovider -n ${SUITE_N:-6} --timeout=900 src/grid/tests 2>&1 | tail -1)
  else
    line="PATCH DOES NOT APPLY to current HEAD"
  fi
  git -C /repo worktree remove --force "$dir"
  /venv/bin/python - "$d/meta.json" "$line" <<'PY'
import json,sys
p,line=sys.argv[1],sys.argv[2]
m=json.load(open(p)); m["verified_by_me"]["suite_with_patch_on_current_HEAD"]=line.strip("= \n"); json.dump(m,open(p,"w"),indent=1)
PY
  echo "$id: $line"
done
