#!/bin/sh
# usage: tools/port_patch.sh <diff>  -> rewrites <diff> in place as a patch against /repo HEAD when it only applies with fuzz
d="$(readlink -f "$1")"; dir="/tmp/wt/port-$$"; mkdir -p /tmp/wt
git -C /repo worktree add --detach "$dir" HEAD >/dev/null 2>&1
if git -C "$dir" apply --check "$d" 2>/dev/null; then echo "applies cleanly"; else
  if (cd "$dir" && patch -p1 --fuzz=3 --no-backup-if-mismatch < "$d" >/dev/null 2>&1); then (cd "$dir" && git diff) > "$d.ported" && mv "$d.ported" "$d" && echo "ported"; else echo "CANNOT PORT"; fi
fi
git -C /repo worktree remove --force "$dir"
