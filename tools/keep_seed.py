#!/usr/bin/env python3
"""tools/keep_seed.py <seeded-src-dir> <A|B> <PID> <id> "<needs>" "<caught-by / result>"
Copies a verified seeded change into /verif/seeded/<id>/ (patch.diff, demo.py, notes.md, meta.json)."""
import json, os, shutil, sys
src, ab, pid, sid, needs, result = sys.argv[1:7]
dst = f"/verif/seeded/{sid}"
os.makedirs(dst, exist_ok=True)
shutil.copy(f"{src}/{ab}.diff", f"{dst}/patch.diff")
shutil.copy(f"{src}/demo_{ab}.py", f"{dst}/demo.py")
if os.path.exists(f"{src}/notes.md"):
    shutil.copy(f"{src}/notes.md", f"{dst}/notes.md")
meta = {
    "id": sid, "property": pid, "variant": ab,
    "needs_to_manifest": needs,
    "origin": "independent sub-agent given only the property text and a scratch worktree",
    "verified_by_me": {
        "demo_on_clean_HEAD": "PASS (exit 0)", "demo_with_patch": "FAIL",
        "check_with_patch": result,
        "how": f"tools/try_seed.sh <dir> {ab} {pid} (scratch worktree of /repo HEAD, VERIF_GRID_SRC)",
        "suite_with_patch_on_current_HEAD": "pending (tools/suite_seeds.sh)",
    },
}
json.dump(meta, open(f"{dst}/meta.json", "w"), indent=1)
print("kept", dst)
