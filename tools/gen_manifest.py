#!/usr/bin/env python3
"""Regenerate /verif/MANIFEST.json from the table below (single source of truth).

A property is claimed only when vf/props/cNN.py exists *and* it is listed in CLAIMED; every
other property goes to not_applicable with its reason.
"""
import json
import os

ROOT = os.path.dirname(os.path.dirname(os.path.abspath(__file__)))

BASELINE_OFF = (
    "cd /repo && env -u GRID_VERIF /venv/bin/python -m pytest -ra -q -p no:cacheprovider "
    "--timeout=900 --continue-on-collection-errors -n 8"
)

E1 = "explicit-state exploration of API-call histories on the real objects (BFS, canonical state keys, fresh world per history, differential oracle vs fresh world)"
E2 = "exhaustive enumeration of a finite configuration lattice (complete product or deviation-bounded) against an independent reference model"

# id -> (level category, technique, level text, level note, design ref)
CLAIMED = {
    "C12": (
        "exploration",
        "complete enumeration of every integer request (all 4 methods, every degree and size 0..max, out-of-range, every table entry +-1 through the constructor, converter sequences up to length 3) against min{supported >= request} computed from the table sorted by the check and the data directory",
        "The request space is finite and is enumerated completely (about 129 000 cases in 3 s), so within the integer domain this is a decision, not a sample; sequences are bounded to length 3 over a boundary alphabet.",
        "Trusts the shipped table as the definition of 'supported' (cross-checked: mutually inverse, ascending, every entry has a data file with that many points) and np.load.",
        "DESIGN.md 3/C12",
    ),
    "C02": (
        "exploration",
        "complete enumeration of all 450 shipped (method, degree, size) grids x every real spherical harmonic (l,m), l<=degree, against an independent float64 harmonic recursion (self-validated against a multiprecision definition); for every grid seven further documented ways of constructing it (by size, through the cache first / second time, other spellings of the method name, uncached after cached) must give the identical arrays",
        "The space is finite: thorough enumerates it completely (9.1e6 moments = 2.5e11 point-harmonic evaluations, 2 min on 16 cores); quick takes every grid, all l for grids below a cost cap and l<=30 for the largest, and reports the cap.",
        "Trusts the float64 recursion oracle (start-up self-test vs mpmath definition, Cartesian closed forms, addition theorem to l=330) and treats 1e-10*sqrt(4pi) as data rounding noise.",
        "DESIGN.md 3/C02",
    ),
    "C19": (
        "model_checking",
        "explicit-state breadth-first exploration of API-call histories on the real library objects (angular caches / inferred transform scale / Coulomb table), canonical state keys, fresh world per history, invariant + differential oracle after every transition, determinism validated by double and fresh-interpreter replays",
        "Every call history over the stated alphabet up to the depth bound is executed on the implementation itself (quick: depth 3 for every pair of methods, 5.6e3 canonical states / 2.3e4 transitions; thorough: depth 5 for the main pair); after each transition every (method, degree) of the alphabet is probed against the shipped data and every object is compared with a fresh world. This is a coverage statement within the bound, not a sample.",
        "Trusts the reset of the module caches (validated against a spawned interpreter), the canonical keys (soundness argument in vf/props/c19.py), np.load of the data files. Alphabet: 2 methods x 2 degrees per run (all four methods over the runs), edits are '*= 2' in place.",
        "DESIGN.md 3/C19",
    ),
    "C10": (
        "model_checking",
        "explicit-state breadth-first exploration of histories of local-grid queries and points/weights reassignments on one live instance per grid kind (16 kinds), plus a second exploration per kind with the event 'the caller edits the local grid it was handed last, in place' and a query centre 1e-7 from another, brute-force distance filter on the reference model's current arrays after every query; complete product grid kind x index kind for selection; points exactly on the sphere (integer coordinates) for six classes x six radii x argument forms of centre and radius; selection attempts on the classes without selection",
        "Per grid kind the reachable abstract state space (points version x weights version x which array the lazy tree indexes) is small and is exhausted within the depth bound (quick 4, thorough 5: 1.6e3 canonical states, 2.0e4 transitions in the quick tier, every transition executed on the real object); selection is a complete 10 x 27 product.",
        "Reassignment = the points/weights setters. Boundary ties within 1e-12*(1+r) are excluded. radius=inf on PeriodicGrid belongs to C11. Trusts cKDTree only through the brute-force comparison.",
        "DESIGN.md 3/C10",
    ),
    "C03": (
        "exploration",
        "complete product of transform class x parameter alphabet x interior lattice points x call form (array, length-1 array, NumPy scalar), each compared with a multiprecision evaluation of the docstring formula and its mp.diff derivatives; inverse derivatives via the inverse-function identities on the oracle's derivatives; NumPy-scalar form at the reference end points; all ordered pairs of methods on one instance with one work array refilled in place between the calls (history of length 2) against a fresh instance",
        "Every discrete combination of the alphabets (472 configurations incl. the Inverse wrapper of each, 10 points, 8 methods, about 6.6e4 comparisons) is enumerated, so every branch/term of every hand-derived formula is exercised for integer and non-integer k and m, three rmin/R/rmax values and both trimming modes; VERIF_SEED moves the real-valued representatives inside small boxes. It is a decision on the lattice, argued (not proved) to generalise because a wrong rational/elementary closed form cannot agree with the true one on this many points.",
        "mpmath at 40 digits is exact for this purpose; relative tolerance 2e-9 at interior points, 5e-2 at |x|>0.95 where r-rmin / 1-exp(-t) cancel in floating point; image-argument methods are referred to the exact pre-image of the float64 argument.",
        "DESIGN.md 3/C03",
    ),
    "C04": (
        "exploration",
        "complete product (24 one-dimensional rules x 5 sizes) x transform class x parameter alphabet (incl. Inverse wrappers and inferred b), each transformed grid compared node by node with a multiprecision change-of-variables oracle; exact rational reference for the transported Gauss-Legendre exactness",
        "Every (rule, n, transform, parameters) combination of the alphabets is enumerated (thorough: 3.0e4 grids / 2.5e5 node and domain comparisons; quick: reduced parameter alphabet), so sign, Jacobian order, domain ordering, trimming and rejection of mismatching domains are decided for every class and both monotonicities.",
        "mpmath maps re-typed from docstrings; nodes where the map is singular only carry the +-inf/1e16 convention; Hyperbolic grids beyond the pole 1/b and zero-slope nodes of Inverse wrappers (clean ZeroDivisionError) are inadmissible, counted separately.",
        "DESIGN.md 3/C04",
    ),
    "C01": (
        "exploration",
        "complete product of 26 rule classes x every n (both parities; quick 1..41, thorough 1..128, plus -1/0/1, even n for odd-only rules and, for the series-defined and closed-form Chebyshev-type rules, sizes around 128/192/256 (thorough up to 600)) x extra-parameter alphabets x every polynomial degree 0..nominal, against exact moments and multiprecision re-typed closed-form definitions (weights = step x mp.diff of the node map; g'(x_i) w_i for the Trefethen maps); declared domain of every class against the interval its definition lives on; per-weight relative tolerance for rules whose weights span many orders of magnitude",
        "All sizes up to the bound and all degrees up to the nominal one are enumerated (thorough 1.1e6 comparisons), so parity-dependent and size-dependent slips (series truncation, halved end weights, sign patterns) are decided for every n up to 128 (and at sizes around the block lengths 64..256 a blocked series summation would use) rather than at n=10.",
        "Gauss nodes come from NumPy/SciPy root finders (tolerance 1e5 eps x natural scale, others 1e4 eps); parameter combinations whose defining node map is not representable in float64 are inadmissible (counted, named in the evidence).",
        "DESIGN.md 3/C01",
    ),
    "C17": (
        "exploration",
        "complete product exponent lattice (41 values over 10 decades) x radius lattice (23 values incl. 0, both sides of the 1e-12 switch, 1e8, inf) x {s,p} x {normalised, not} against the Coulomb integral of the documented density evaluated with multiprecision incomplete gamma functions; all (K_s,K_p) configurations of the multi-centre routine for three placements (near the origin, 1e4 bohr away with tight exponents, distinct centres that agree to 1e-6) with correctly rounded reference distances; every element 1..118 x 5 spellings through the loader",
        "Every lattice combination is evaluated (about 5e3 comparisons), including both limit branches and the large-r charge limit; the oracle is an independent derivation (radial Coulomb integrals), validated at start-up against numerical quadrature and the radial Poisson equation. The loader's call histories are explored under C19.",
        "mpmath gammainc at 30 digits; relative tolerance 1e-11; VERIF_SEED perturbs exponents and radii inside their lattice cells.",
        "DESIGN.md 3/C17",
    ),
    "C08": (
        "exploration",
        "complete product structured angle lattice (8 azimuths x 6 principal + 3 non-principal polar angles incl. both poles and a near-pole angle) x every (l,m) <= l_max for both implementations and both angular derivatives, against a multiprecision definition oracle (exact Legendre coefficients, mp.diff), a float64 recursion oracle at l_max up to 200, the addition theorem on all ordered direction pairs, Cartesian closed forms and coordinate round trips; every maximum degree 0..8 as leading block of the l_max=12 output for all four routines; both derivatives at degree 40 (exact partner relation for the azimuth, central differences of the oracle for the polar angle); in-place refill histories",
        "Every (l,m) parity/sign/ordering combination up to l=12 (thorough 24) is compared at angles chosen from the branch structure (poles, equator, negative and >2pi azimuths), and all rows up to l=200 against an independent recursion, so a slip affecting one parity, one order or high degree only is decided, not sampled.",
        "Definition enforced on polar angle in [0,pi] (all azimuths); outside it the recursion-based routine is held to the harmonic of the direction (analytic continuation), the SciPy-based one to agreement with it (recorded finding: opposite sign for odd m); at the poles only finiteness of the polar derivative (documented convention).",
        "DESIGN.md 3/C08",
    ),
    "C18": (
        "exploration",
        "complete product of domain counts 1..3 x every grid-size tuple over 1..4 (thorough 1..5) x point dimensionality pattern x list/repeated mode x 3 integrands x vectorised/point-by-point x every chunk size 1..size+1, against nested-loop product quadrature; generators compared element-wise with itertools.product order, enumerated twice and interleaved; other grid classes as domains (library 1-D rules, atomic grid, 2-D uniform grid), one object listed two and three times, a product above the default chunk length",
        "Chunk-size independence and route equality are decided for every chunking of every small product grid (about 1e4 integrals quick), including chunk sizes that do not divide the total and size-1 grids; generator alignment is checked by interleaved consumption.",
        "Plain nested loops in float64 as reference (tolerance 1e-12 of sum|w f|); grids of up to 5 nodes per domain.",
        "DESIGN.md 3/C18",
    ),
    "C14": (
        "exploration",
        "complete product grid (1-D, 2-D, 3-D point sets, atomic grid; the inherited method on rotated atomic, molecular, uniform, tensor, angular, local and periodic grids) x moment type x maximal order 0..L x 1..3 centres (incl. a grid point and the atomic grid's own centre) x function-value basis (unit vectors + two smooth arrays; the map is linear) x return_orders x integer type of the order, against direct sums with an independently generated Horton order list and solid harmonics from the independent recursion oracle",
        "Every row of every order up to the bound is compared for every centre and basis function (4.8e4 entries quick), so (l,m)->row and (n,l,m)->row bookkeeping, multi-centre stacking and the 1-D/2-D order generators are decided for all orders up to L.",
        "Linearity in the function values makes the unit-vector basis decide all value arrays; tolerance 1e-11 of sum|w f basis|; orders up to 6 (thorough 8).",
        "DESIGN.md 3/C14",
    ),
    "C13": (
        "exploration",
        "seven exhaustive sub-spaces: every flat index / coordinate tuple of all shapes {2..5}^2 u {2..4}^3; point layout for axes menus x shapes and all ordered pairs/triples of four 1D grids; 5 weight schemes x 2 dims x 6 shapes x 2 axes; 8 molecules x spacing x extension x rotate; query-point lattices for closest_point vs brute-force argmin; cube-file round trips in both unit conventions; cubic interpolation of the 64 monomials x^a y^b z^c (a,b,c<=3, a basis by linearity) x derivative orders on two grids, log variant (cubic, linear, nearest), trilinear functions incl. outer cells, a grid with 5 and 6 nodes along two axes (recorded finding), shapes up to 30^3 / 64 x 25 for the weight-sum bound, refill histories",
        "Each sub-space is finite and enumerated completely (3.4e4 comparisons quick; thorough adds all 64 derivative orders), so stride arithmetic, meshgrid ordering, kron order and every weight scheme in both dimensions are decided for non-cubic shapes and skewed/negative axes.",
        "Cubic-spline reproduction on axes with fewer than 7 nodes is the recorded finding 'short-axis'; cube precision = printed precision; closest_point only for diagonal axes (documented) and queries within half a step of the box.",
        "DESIGN.md 3/C13",
    ),
    "C06": (
        "exploration",
        "product atom count 1..6 x element assignments over 8 elements (all for <=3 atoms, <=2 deviations from homonuclear above; incl. elements needing the first and second radius fallback) x 3 geometries x switching order 1..5 x 5 segmentations of a structured point set (nuclei, bond midpoints, bond extensions, near, far), every evaluation route compared point by point with a plain-loop reference written from Becke's definition; explicit atom-per-sector lists (reversed, rotated, proper sub-list, NumPy integers) on both segment-wise routes; 9-18 atoms with few points (chunk length floored at one); 24 cube rotations x 2 translations and atom permutations; one instance with point / coordinate arrays refilled in place; Hirshfeld share vs pro-atom files read directly",
        "Every discrete branch combination (chunk count 1..4, chunk edges inside/on/between segments, empty segments, clipped and unclipped heteronuclear shifts, both fallbacks) is enumerated (2.5e6 weights quick); partition-of-unity facts are properties of the reference itself, so agreement to 1e-13 transfers them to all routes.",
        "Reference = Becke 1988 with |a| clipped at 0.45 and the documented fallback; VERIF_SEED jitters coordinates by <= 0.03 bohr.",
        "DESIGN.md 3/C06",
    ),
    "C05": (
        "exploration",
        "product of 4 radial grids (with/without an r=0 node) x all per-shell degree sequences over a 3-degree alphabet per method (complete for lengths 3-4, deviation-bounded for 5-6; thorough complete) x 4 methods x 2 centres x 6 rotation seeds (incl. NumPy integers), one- and two-shell radial grids, documented argument forms (single degree / size broadcast, arrays, sizes over degrees, default), every shell compared with centre + r_i x (unit angular grid x recovered orthogonal matrix) and w_i r_i^2 x angular weights; factorised integrals of 3 radial shapes x all (l,m) <= min degree; all sector placements for from_pruned (also with centre, seed and array arguments, compared with the plain constructor); all 17 presets x every tabulated element (1374 pairs) against the raw .npz tables, and for a subset of elements with centre, seed and each of the four methods",
        "Every (shell, angular node) pair of every configuration is tied to its definition (3.9e5 identities quick), for every degree sequence of the alphabet rather than three or four configurations; presets are enumerated completely.",
        "Unit angular grids come from AngularGrid(cache=False) (decided by C02/C12); exact ties of a radial node with a sector boundary are accepted either way (docstring ambiguous); Ahrens-Beylkin degrees with defective data files are kept out of the alphabet.",
        "DESIGN.md 3/C05",
    ),
    "C07": (
        "exploration",
        "deviation-bounded product (bound 2 quick / 3 thorough) of molecule (1-4 atoms) x constructor (direct, from_size, from_preset, from_pruned) x radial spec (one grid, per-atom list, per-element dict, default) x aim weights (Becke, Hirshfeld, array) x store x rotate, each molecular grid compared array by array with atomic grids built by hand from the same arguments and aim weights evaluated by the check; every configuration paired with its store on/off partner; 16 documented argument forms of the convenience constructors (single number for radius / d_sectors / s_sectors, arrays, other sizes, list of presets, omitted seed and weights); explicit-state exploration of accessor orders (item / get_atomic_grid) on one instance; complete product 17 presets x 8 molecules x 5 exponents for the end-to-end charge clause",
        "All option combinations within the deviation bound are enumerated (about 300 grids, every array compared exactly), so argument fan-out of each classmethod (rotate, store, per-atom lists, dict keyed by atomic number) is decided; the end-to-end clause is a complete product over its alphabet.",
        "AtomGrid and Becke/Hirshfeld are decided by C05/C06. The 1% clause applies literally (rgrid=None) to sector-radius presets; shell-count presets prescribe a radial size the default grid never has (rgrid=None is refused), they are built with the default kind at the prescribed size and held to a 10% sanity bound only (observed errors in the evidence).",
        "DESIGN.md 3/C07",
    ),
    "C11": (
        "exploration",
        "complete product point dimension 1..3 x lattice menu (0..dim vectors: orthogonal, skewed, negative, long/short, non-unit and negative in 1-D) x wrap x point set (inside / outside / on the cell boundary) x 5 centres x 5 radii (0, small, > cell, 2.7 cell, empty), every query compared as a multiset of (parent index, position) with brute-force enumeration of all lattice translations in a generous box; exact dyadic sub-spaces (1-D: any sign; 2-D / 3-D: eight orthogonal lattices) where an image exactly on the sphere is decidable and nothing is a tie; explicit-state exploration (8 worlds, depth 3 / 4) of histories of queries, reassignment of weights and points and in-place edits of the handed-out local grid",
        "Completeness and no-duplication of the image enumeration are decided for every cell shape / centre / radius combination of the alphabet (2.8e3 queries), including spheres larger than the cell and spheres without any image; wrapping is checked against the caller's array and the [0,1) range.",
        "Images within 1e-12*(1+r) of the sphere surface (incl. exact coincidence at radius 0) are ties, excluded and counted; the brute-force box uses the plane-spacing bound with a margin of 2 cells.",
        "DESIGN.md 3/C11",
    ),
    "C09": (
        "exploration",
        "product of atomic grids (2 radial grids incl. an r=0 node x uniform/mixed degrees x 4 methods x centre x rotation) x basis functions r^l h_k(r) Y_lm for all l <= min degree/2 (every (l,m): per configuration in the thorough tier, as a union over the configurations in the quick tier) and 3 radial shapes (linearity makes the basis decide the span) x structured evaluation points, against the independent harmonic oracle and 6th-order differences of the same interpolant; explicit-state exploration of all call orders up to length 3 of the four routines sharing the lazy basis on one instance vs fresh instances",
        "Every (l,m) component is recovered separately on every grid configuration (1.4e4 comparisons quick), for rotated and off-origin grids; self-consistency of Cartesian, spherical and radial derivatives is checked against the same callable; the history clause is an exhaustive search over call orders.",
        "Relies on angular exactness (C02). Derivatives are compared inside one spline interval; the centre itself is excluded from gradient checks (the spline-times-harmonic interpolant has a cusp there).",
        "DESIGN.md 3/C09",
    ),
    "C15": (
        "exploration",
        "product order {1,2,3} x 4 coefficient sets (constants, callables, mixed, all lower-order coefficients zero) x 3 manufactured solutions (right-hand side derived symbolically) x 25 transform settings (none, identity, 7 inverse maps, Power/Exp/LinearInfinite and their inverses, Hyperbolic and its inverse, 6 forward maps on an interval in (-1,1)) x {IVP x 5 methods, BVP x 3 boundary forms x initial guess} x no_derivatives, each solve compared on 9 points with the closed-form solution and its derivatives with respect to the original variable",
        "Every order/transform/solver combination of the alphabet is solved (2.6e3 solves quick, about 1e4 thorough), so each Bell-polynomial coefficient, the mapping of initial data and of returned derivatives, and every transform's deriv/deriv2/deriv3 are exercised at third order with non-trivial k and m.",
        "Tolerance 200 x the requested solver tolerance (x50 for the lower-order IVP methods); decreasing maps are inadmissible for the BVP solver (SciPy rejects a decreasing mesh), every problem of the alphabet converges on the unchanged tree, so a solver that gives up is a violation, as is a solve exceeding 120 s of CPU time; the random default initial guess is seeded.",
        "DESIGN.md 3/C15",
    ),
    "C16": (
        "exploration",
        "product / deviation-bounded product of a Gaussian density basis (3 exponents x centred / two displacement directions) x angular degree x solver options (boundary value given or computed, origin node, removal of large radii, transform variants incl. a Laguerre grid) for the boundary-value solver, linear combinations, the initial-value solver, the Laplacian interpolant, the robust solver on the shipped core models (exact-cancellation case per element) and core+smooth densities with and without the second split; homogeneity V[s rho] = s V[rho] for s = 1e-10 .. 1e5, robust against plain solver on a smooth density, two stretched two-centre molecular grids (thorough: two more)",
        "Every option combination within the deviation bound is solved and compared at near / far / on-axis / generic points with the analytic Coulomb potential (factor, sign, boundary-value and recombination errors are far above the 1e-3 bound; observed errors 1e-5..4e-4 are in the evidence); linearity is checked to 1e-4 (observed 5e-9).",
        "Accuracy bounds are the advertised ones (1e-3 BVP, 1e-2 IVP), so a gradual loss of accuracy below them is not decided; exact grid centres are excluded (documented u(0)=0 convention); with include_origin=False only points beyond 1 bohr are compared (documented caveat).",
        "DESIGN.md 3/C16",
    ),
    "C20": (
        "exploration",
        "catalogue of 219 call specifications covering the public callables that take arrays / lists / dicts / callbacks (coverage by introspection reported in the evidence) x aliasing patterns (fresh, all arrays write-protected, the same array for two parameters, callbacks returning their own argument, callbacks returning a cached write-protected array) with byte-wise before/after snapshots and a differential result oracle; all ordered pairs of calls inside 22 families sharing their argument objects (two-call programs; three-call programs in the thorough tier); 46 operations driven into a documented error (rejected argument, solver giving up, user callback raising part-way) with fresh and write-protected arguments; library objects passed in are snapshotted through their public data attributes; inputs that are views of each other",
        "Every catalogued call is executed under every applicable aliasing pattern and every ordered pair of calls in a family is executed on shared argument objects, so in-place updates of inputs, option dictionaries and callback results are decided for the whole catalogue rather than for the temporaries the suite passes.",
        "Byte-wise snapshots cannot see a mutation that is undone before the call returns; catalogue completeness is by introspection plus hand-written argument factories (uncovered callables are listed in the evidence); file-writing calls go to a temporary directory that is removed.",
        "DESIGN.md 3/C20",
    ),
}

NOT_YET = "check not built yet in this session (work in progress; see DESIGN.md section 8 for the order of work)"


def main():
    props = [json.loads(l) for l in open(os.path.join(ROOT, "properties.jsonl"))]
    checks, na = [], []
    for p in props:
        pid = p["id"]
        have = os.path.exists(os.path.join(ROOT, "vf", "props", pid.lower() + ".py"))
        if pid in CLAIMED and have:
            cat, tech, text, note, ref = CLAIMED[pid]
            checks.append(
                {
                    "property_id": pid,
                    "quick_cmd": f"./check {pid} --tier quick",
                    "thorough_cmd": f"./check {pid} --tier thorough",
                    "evidence_file": f"/verif/evidence/{pid}.json",
                    "replay_cmd_template": f"./check {pid} --replay {{path}}",
                    "engine": "E1-history-explorer" if cat == "model_checking" else "E2-lattice",
                    "level_claimed": {"category": cat, "text": text, "design_ref": ref},
                    "level_note": note,
                    "technique": tech,
                }
            )
        else:
            na.append({"property_id": pid, "reason": NOT_YET})
    man = {
        "version": 1,
        "setup_cmd": "cd /verif && /venv/bin/python -B -c \"import sys; sys.path.insert(0,'/verif'); import vf.cli, numpy, scipy, mpmath, sympy, grid; print('ok', grid.__file__)\"",
        "hooks": {
            "guard": "GRID_VERIF",
            "enable": "none needed: no hooks were added to /repo; all hidden state (module caches, lazy trees, inferred parameters) is reachable as module/instance attributes. Checks import /repo/src directly (editable install), so they always see the working tree.",
            "baseline_off_cmd": BASELINE_OFF,
            "source_commits": [],
            "add_only": True,
        },
        "engines": [
            {
                "name": "E1-history-explorer",
                "path": "vf/explore.py",
                "serves_properties": ["C09", "C10", "C17", "C18", "C19", "C20"],
                "kind_free_text": E1,
            },
            {
                "name": "E2-lattice",
                "path": "vf/lattice.py",
                "serves_properties": [p["id"] for p in props],
                "kind_free_text": E2,
            },
        ],
        "checks": checks,
        "not_applicable": na,
        "notes": "All checks: ./check CNN [--tier quick|thorough] [--seed N] [--replay FILE]; exit 0 held / 1 VIOLATION / 2 harness error. known_findings.json lists open findings (KNOWN-FINDING lines) and fixed ones (suppress nothing). tools/validate.py (python3-vt) validates manifest and evidence against the schemas.",
    }
    with open(os.path.join(ROOT, "MANIFEST.json"), "w") as fh:
        json.dump(man, fh, indent=1)
        fh.write("\n")
    print(f"claimed={len(checks)} not_applicable={len(na)}")


if __name__ == "__main__":
    main()
