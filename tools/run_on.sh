#!/bin/sh
# usage: tools/run_on.sh <commit-ish|patchfile> CNN [more check args]
# Runs ./check CNN against a scratch worktree of /repo (at a commit, or HEAD + patch), then removes it.
set -e
what="$1"; shift
name="run-$$"
dir="/tmp/wt/$name"
mkdir -p /tmp/wt
if [ -f "$what" ]; then
  git -C /repo worktree add --detach "$dir" HEAD >/dev/null 2>&1
  git -C "$dir" apply "$(readlink -f "$what")"
else
  git -C /repo worktree add --detach "$dir" "$what" >/dev/null 2>&1
fi
cp /repo/src/grid/_version.py "$dir/src/grid/_version.py" 2>/dev/null || true
set +e
VERIF_GRID_SRC="$dir/src" VERIF_NO_EVIDENCE=1 /verif/check "$@"
rc=$?
git -C /repo worktree remove --force "$dir"
exit $rc
