"""E1 -- explicit-state exploration of API-call histories on the real objects.

    seen, frontier = {canon(build([]))}, [[]]
    for level in 1..depth:
        for hist in frontier:                       (sharded over the worker pool)
            for ev in enabled(build(hist)):
                w = build(hist + [ev])              fresh world, events replayed
                violations = w.violations           invariants / reference model / differential
                k = w.canon()
                transitions += 1
                if k not in seen: seen.add(k); next_frontier.append(hist + [ev])

A *world* class provides

    World(seed)            fresh world: resets the library's module-level state, builds nothing
    .enabled()  -> list    events (tuples of JSON-able atoms) enabled in the current state,
                           simplest first
    .apply(ev)  -> obs     execute the event on the real library objects, run the oracles, append
                           to .violations [(key, what, details)]; returns a JSON-able observation
    .canon()    -> hashable canonical state key (soundness argument lives next to it)

Live NumPy/SciPy objects do not copy reliably, so a state *is* the event history that reaches
it: every transition is executed on a fresh world with the prefix replayed.  States in which a
violation was reported are not expanded (their descendants would only repeat it).

Determinism is checked, not assumed: a subset of histories is executed twice in the worker and
(optionally) once more in a freshly spawned interpreter; the observation digests must be
identical, otherwise HarnessError (exit 2).
"""

from __future__ import annotations

import hashlib
import importlib
import json
import multiprocessing as mp

from vf import lattice
from vf.cli import HarnessError, _jsonable


def _digest(obj):
    return hashlib.sha1(json.dumps(_jsonable(obj), sort_keys=True).encode()).hexdigest()[:16]


def run_history(world_cls, seed, hist, params=None):
    """Build a fresh world, replay ``hist``; returns (world, observations)."""
    w = world_cls(seed, **(params or {}))
    obs = []
    for ev in hist:
        try:
            with lattice.cpu_limit(lattice.default_cpu_limit()):
                obs.append(w.apply(tuple(ev)))
        except lattice.CaseTimeout:
            w.violations.append((f"event-did-not-finish:{ev[0]}", f"event {tuple(ev)} did not finish within "
                                 f"{lattice.default_cpu_limit():g} s of CPU time (hang, or orders of magnitude slower)", {}))
            obs.append(("timeout",))
            break
        except HarnessError:
            raise
        except Exception as exc:  # noqa: BLE001 -- the library raised on a legal call of the alphabet
            import traceback

            tb = traceback.extract_tb(exc.__traceback__)
            lib = [fr for fr in tb if "/grid/" in fr.filename and "/vf/" not in fr.filename] or list(tb)
            where = f"{lib[-1].filename.split('/')[-1]}:{lib[-1].lineno}:{lib[-1].name}"
            w.violations.append((f"event-raised:{ev[0]}:{type(exc).__name__}:{where}",
                                 f"event {tuple(ev)} raised {type(exc).__name__}: {exc} (at {where})", {}))
            obs.append(("exception", type(exc).__name__))
            break
    return w, obs


def _resolve(path):
    mod, name = path.rsplit(":", 1)
    return getattr(importlib.import_module(mod), name)


def _expand_shard(arg):
    """Worker: expand a list of histories by one event each."""
    world_path, seed, params, hists, twice_every, offset = arg
    world_cls = _resolve(world_path)
    out = []
    for n, hist in enumerate(hists):
        w, _ = run_history(world_cls, seed, hist, params)
        if w.violations and not hist:
            continue  # bad initial state: reported by the parent, nothing to expand
        if w.violations:
            # the prefix was clean when it was put on the frontier: nondeterminism
            raise HarnessError(f"history {hist} was clean before and violates now: {w.violations}")
        for ev in w.enabled():
            full = list(hist) + [ev]
            w2, obs = run_history(world_cls, seed, full, params)
            dig = _digest([obs, w2.canon()])
            rec = {
                "hist": full,
                "key": w2.canon(),
                "digest": dig,
                "violations": [
                    {"key": k, "what": what, "details": _jsonable(det)} for k, what, det in w2.violations
                ],
                "twice": False,
            }
            if twice_every and (offset + n) % twice_every == 0:
                w3, obs3 = run_history(world_cls, seed, full, params)
                dig3 = _digest([obs3, w3.canon()])
                if dig3 != dig:
                    raise HarnessError(f"history {full} is not deterministic: {dig} vs {dig3}")
                rec["twice"] = True
            out.append(rec)
    return out


def _fresh_process_digests(arg):
    world_path, seed, params, hists = arg
    import vf.cli

    vf.cli.setup_import_path()
    world_cls = _resolve(world_path)
    res = []
    for hist in hists:
        w, obs = run_history(world_cls, seed, hist, params)
        res.append(_digest([obs, w.canon()]))
    return res


def explore(ctx, world_path, depth, params=None, twice_every=1, fresh_every=0, section=None,
            max_states=None):
    """Breadth-first exploration up to ``depth`` events.  Returns a statistics dict and merges
    counts/violations into ``ctx``."""
    world_cls = _resolve(world_path)
    w0 = world_cls(ctx.seed, **(params or {}))
    for k, what, det in w0.violations:  # the initial state itself may already be bad
        ctx.violation(k, what, {"world": world_path, "params": params, "history": []},
                      **(det if isinstance(det, dict) else {"details": det}))
    seen = {w0.canon()}
    frontier = [[]]
    transitions = 0
    executed = 0
    digests = set()
    hist_digest = {}
    twice = 0
    capped = False
    completed_depth = 0
    per_level = []
    for level in range(1, depth + 1):
        if not frontier:
            break
        shards = lattice.chunks(frontier, ctx.workers * 4)
        args = []
        off = 0
        for sh in shards:
            args.append((world_path, ctx.seed, params, sh, twice_every, off))
            off += len(sh)
        nxt = []
        new_states = 0
        for res in lattice.pmap(_expand_shard, args, ctx.workers, guard=False):
            for rec in res:
                transitions += 1
                executed += 1 + (1 if rec["twice"] else 0)
                twice += 1 if rec["twice"] else 0
                digests.add(rec["digest"])
                key = _freeze(rec["key"])
                if rec["violations"]:
                    for v in rec["violations"]:
                        ctx.violation(
                            v["key"],
                            v["what"],
                            {"world": world_path, "params": params, "history": rec["hist"]},
                            **(v["details"] if isinstance(v["details"], dict) else {"details": v["details"]}),
                        )
                    continue
                if key not in seen:
                    seen.add(key)
                    new_states += 1
                    nxt.append(rec["hist"])
                    hist_digest[tuple(map(tuple, rec["hist"]))] = rec["digest"]
                    if len(seen) <= 3 or (len(seen) % 97 == 0):
                        ctx.sample({"world": world_path.rsplit(":", 1)[1], "history": rec["hist"]})
        per_level.append({"depth": level, "frontier": len(frontier), "new_states": new_states})
        completed_depth = level
        frontier = nxt
        if max_states and len(seen) > max_states:
            capped = True
            break
    # fresh-interpreter validation of a subset of the state-reaching histories
    fresh = 0
    if fresh_every and hist_digest:
        hists = [list(map(list, h)) for i, h in enumerate(sorted(hist_digest, key=repr)) if i % fresh_every == 0]
        pool = mp.get_context("spawn").Pool(1)
        try:
            got = pool.apply(_fresh_process_digests, ((world_path, ctx.seed, params, hists),))
        finally:
            pool.close()
            pool.join()
        for h, d in zip(hists, got):
            if hist_digest[tuple(map(tuple, h))] != d:
                raise HarnessError(f"history {h} gives a different digest in a fresh interpreter")
        fresh = len(hists)
    ctx.states += len(seen)
    ctx.transitions += transitions
    ctx.traces += executed + fresh
    ctx.count(transitions, section=section)
    ctx.nontrivial(n=len(digests), section=section)
    stats = {
        "world": world_path,
        "params": params,
        "depth_completed": completed_depth,
        "states": len(seen),
        "transitions": transitions,
        "histories_executed": executed,
        "replayed_twice": twice,
        "replayed_in_fresh_interpreter": fresh,
        "distinct_observation_digests": len(digests),
        "per_level": per_level,
        "cap_hit": capped,
        "frontier_left_unexpanded_at_bound": len(frontier),
    }
    ctx.cov.setdefault("explorations", []).append(stats)
    return stats


def _freeze(x):
    if isinstance(x, (list, tuple)):
        return tuple(_freeze(v) for v in x)
    if isinstance(x, dict):
        return tuple(sorted((k, _freeze(v)) for k, v in x.items()))
    return x


def replay_history(ctx, case):
    """Re-execute one recorded history without the explorer."""
    world_cls = _resolve(case["world"])
    w, _ = run_history(world_cls, ctx.seed, [tuple(e) for e in case["history"]], case.get("params"))
    ctx.count()
    for k, what, det in w.violations:
        ctx.violation(k, what, case, **(det if isinstance(det, dict) else {"details": det}))
