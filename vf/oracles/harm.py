"""Reference real spherical harmonics, independent of grid.utils.

Definition (docstring of grid.utils.generate_real_spherical_harmonics): for polar angle phi and
azimuth theta

    Y_l0  = N_l0 P_l(cos phi)
    Y_lm  = sqrt(2) N_lm P_l^m(cos phi) cos(m theta)        m > 0
    Y_l-m = sqrt(2) N_lm P_l^m(cos phi) sin(m theta)        m > 0
    N_lm  = sqrt((2l+1)/(4 pi) (l-m)!/(l+m)!),  P_l^m without Condon-Shortley phase,

rows in "Horton 2" order  (l, m) = (0,0), (1,0), (1,1), (1,-1), (2,0), (2,1), (2,-1), ...

Both evaluators work on the *unit vector* (x, y, z) = (sin phi cos theta, sin phi sin theta,
cos phi):  sin^m(phi) e^{i m theta} = (x + i y)^m, so poles need no special case and angles
outside the principal range are continued consistently with the sphere.

* ``ylm_mp``    exact rational Legendre coefficients, evaluated in mpmath (slow, any precision)
* ``ylm_f64`` / ``moments_f64``  fully normalised forward recursion (Holmes-Featherstone form)
  in float64, vectorised over orders and points.
"""

from __future__ import annotations

import functools
from fractions import Fraction

import numpy as np


def horton_lm(lmax):
    """List of (l, m) in Horton-2 order."""
    out = []
    for l in range(lmax + 1):
        out.append((l, 0))
        for m in range(1, l + 1):
            out.append((l, m))
            out.append((l, -m))
    return out


def row_of(l, m):
    """Row index of (l, m) in Horton-2 order."""
    if m == 0:
        return l * l
    return l * l + 2 * abs(m) - (1 if m > 0 else 0)


# --------------------------------------------------------------------------- mpmath oracle
@functools.lru_cache(maxsize=None)
def legendre_coeffs(l):
    """Exact coefficients (ascending powers) of the Legendre polynomial P_l."""
    if l == 0:
        return (Fraction(1),)
    if l == 1:
        return (Fraction(0), Fraction(1))
    a = legendre_coeffs(l - 1)
    b = legendre_coeffs(l - 2)
    out = [Fraction(0)] * (l + 1)
    for i, c in enumerate(a):  # (2l-1) x P_{l-1}
        out[i + 1] += Fraction(2 * l - 1, l) * c
    for i, c in enumerate(b):
        out[i] -= Fraction(l - 1, l) * c
    return tuple(out)


@functools.lru_cache(maxsize=None)
def legendre_deriv_coeffs(l, m):
    """Exact coefficients of d^m/dz^m P_l(z)."""
    c = list(legendre_coeffs(l))
    for _ in range(m):
        c = [k * c[k] for k in range(1, len(c))]
    return tuple(c)


def _polyval_mp(coeffs, z):
    """Horner evaluation; the monomial coefficients of P_l grow like 2^l and cancel, so the
    working precision is raised by len(coeffs) digits for the evaluation."""
    import mpmath as mp

    with mp.workdps(mp.mp.dps + len(coeffs) + 5):
        z = mp.mpf(z)
        acc = mp.mpf(0)
        for c in reversed(coeffs):
            acc = acc * z + mp.mpf(c.numerator) / mp.mpf(c.denominator)
    return +acc


def ylm_mp(l, m, x, y, z):
    """Real spherical harmonic Y_lm on the unit vector (x, y, z); mpmath numbers."""
    import mpmath as mp

    am = abs(m)
    norm = mp.sqrt(
        mp.mpf(2 * l + 1) / (4 * mp.pi) * mp.factorial(l - am) / mp.factorial(l + am)
    )
    poly = _polyval_mp(legendre_deriv_coeffs(l, am), mp.mpf(z))
    if m == 0:
        return norm * poly
    e = mp.mpc(x, y) ** am
    ang = e.real if m > 0 else e.imag
    return mp.sqrt(2) * norm * poly * ang


def ylm_mp_angles(l, m, theta, phi):
    """Same on (azimuth theta, polar phi) -- continuation through the unit vector."""
    import mpmath as mp

    theta, phi = mp.mpf(theta), mp.mpf(phi)
    s = mp.sin(phi)
    return ylm_mp(l, m, s * mp.cos(theta), s * mp.sin(theta), mp.cos(phi))


def legendre_mp(l, x):
    return _polyval_mp(legendre_coeffs(l), x)


# --------------------------------------------------------------------------- float64 recursion
@functools.lru_cache(maxsize=8)
def _rec_tables(lmax):
    """a[l, m], b[l, m] of  Pt_lm = a (z Pt_{l-1,m} - b Pt_{l-2,m}),  sectoral constants c[m]."""
    l = np.arange(lmax + 1, dtype=float)[:, None]
    m = np.arange(lmax + 1, dtype=float)[None, :]
    with np.errstate(divide="ignore", invalid="ignore"):
        a = np.sqrt((4 * l * l - 1) / (l * l - m * m))
        b = np.sqrt(((l - 1) ** 2 - m * m) / (4 * (l - 1) ** 2 - 1))
    a[~np.isfinite(a)] = 0.0
    b[~np.isfinite(b)] = 0.0
    c = np.empty(lmax + 1)
    c[0] = np.sqrt(1.0 / (4 * np.pi))
    for k in range(1, lmax + 1):
        c[k] = c[k - 1] * np.sqrt((2 * k + 1) / (2 * k))
    return a, b, c


def _levels(lmax, xyz):
    """Yield (l, Ypos[0..l], Yneg[0..l]) arrays of shape (l+1, N):
    Ypos[m] = Y_{l,m} (m>=0), Yneg[m] = Y_{l,-m} (m>=1; row 0 unused)."""
    xyz = np.asarray(xyz, dtype=float)
    x, y, z = xyz[:, 0], xyz[:, 1], xyz[:, 2]
    n = len(z)
    a, b, c = _rec_tables(lmax)
    # E[m] = (x + i y)^m  (includes sin^m phi)
    e = np.empty((lmax + 1, n), dtype=complex)
    e[0] = 1.0
    xy = x + 1j * y
    for k in range(1, lmax + 1):
        e[k] = e[k - 1] * xy
    fac = np.full(lmax + 1, np.sqrt(2.0))
    fac[0] = 1.0
    ecos = e.real * fac[:, None]
    esin = e.imag * fac[:, None]
    prev2 = np.zeros((lmax + 1, n))  # Pt_{l-2, m}
    prev1 = np.zeros((lmax + 1, n))  # Pt_{l-1, m}
    for l in range(lmax + 1):
        cur = np.zeros((lmax + 1, n))
        if l >= 1:
            # m <= l-1 by recursion (b[l, l-1] = 0 automatically)
            cur[:l] = a[l, :l, None] * (z[None, :] * prev1[:l] - b[l, :l, None] * prev2[:l])
        cur[l] = c[l]
        with np.errstate(over="ignore", invalid="ignore", under="ignore"):
            ypos = cur[: l + 1] * ecos[: l + 1]
            yneg = cur[: l + 1] * esin[: l + 1]
        # an underflowed (x+iy)^m times a huge Pt gives 0*big = 0 or nan only if Pt overflowed
        yield l, ypos, yneg
        prev2, prev1 = prev1, cur


def ylm_f64(lmax, xyz):
    """((lmax+1)^2, N) array in Horton-2 order."""
    xyz = np.asarray(xyz, dtype=float)
    out = np.empty(((lmax + 1) ** 2, len(xyz)))
    for l, ypos, yneg in _levels(lmax, xyz):
        base = l * l
        out[base] = ypos[0]
        if l:
            out[base + 1 : base + 2 * l + 1 : 2] = ypos[1:]
            out[base + 2 : base + 2 * l + 2 : 2] = yneg[1:]
    return out


def ylm_f64_angles(lmax, theta, phi):
    theta = np.asarray(theta, dtype=float)
    phi = np.asarray(phi, dtype=float)
    s = np.sin(phi)
    return ylm_f64(lmax, np.stack([s * np.cos(theta), s * np.sin(theta), np.cos(phi)], axis=1))


def moments_f64(lmax, xyz, w, block=2048):
    """sum_i w_i Y_lm(x_i) for all l <= lmax, Horton-2 order; also sum_i |w_i Y_lm(x_i)|."""
    xyz = np.asarray(xyz, dtype=float)
    w = np.asarray(w, dtype=float)
    mom = np.zeros((lmax + 1) ** 2)
    for s in range(0, len(w), block):
        wb = w[s : s + block]
        for l, ypos, yneg in _levels(lmax, xyz[s : s + block]):
            base = l * l
            mom[base] += ypos[0] @ wb
            if l:
                mom[base + 1 : base + 2 * l + 1 : 2] += ypos[1:] @ wb
                mom[base + 2 : base + 2 * l + 2 : 2] += yneg[1:] @ wb
    return mom


# --------------------------------------------------------------------------- self test
_TEST_DIRS = None


def test_directions():
    """30 fixed unit vectors: axes, poles, near-pole, generic."""
    global _TEST_DIRS
    if _TEST_DIRS is None:
        d = [
            (0, 0, 1),
            (0, 0, -1),
            (1, 0, 0),
            (0, 1, 0),
            (-1, 0, 0),
            (0, -1, 0),
            (1e-7, 0, 1),
            (0, 1e-5, -1),
        ]
        k = 0
        while len(d) < 30:
            k += 1
            t = 0.37 * k * k + 0.1
            p = 0.11 + (2.9 * ((k * 0.618033988749895) % 1.0))
            d.append((np.sin(p) * np.cos(t), np.sin(p) * np.sin(t), np.cos(p)))
        d = np.array(d, dtype=float)
        _TEST_DIRS = d / np.linalg.norm(d, axis=1)[:, None]
    return _TEST_DIRS


def selftest(lmax_mp=16, lmax_add=120):
    """Cross-validate the two evaluators and the addition theorem; returns max deviations."""
    import mpmath as mp

    from vf.cli import HarnessError

    dirs = test_directions()
    out = {}
    with mp.workdps(40):
        y = ylm_f64(lmax_mp, dirs)
        worst = 0.0
        for l, m in horton_lm(lmax_mp):
            r = row_of(l, m)
            for i, (x, yy, z) in enumerate(dirs):
                ref = float(ylm_mp(l, m, mp.mpf(float(x)), mp.mpf(float(yy)), mp.mpf(float(z))))
                worst = max(worst, abs(y[r, i] - ref))
        out["f64_vs_mp"] = worst
        if worst > 1e-12:
            raise HarnessError(f"harmonic oracles disagree: {worst}")
        # Cartesian closed forms pin ordering and normalisation independently
        x, yy, z = dirs[:, 0], dirs[:, 1], dirs[:, 2]
        c1 = np.sqrt(3 / (4 * np.pi))
        cart = {
            (0, 0): np.full(len(z), 1 / np.sqrt(4 * np.pi)),
            (1, 0): c1 * z,
            (1, 1): c1 * x,
            (1, -1): c1 * yy,
            (2, 0): np.sqrt(5 / (16 * np.pi)) * (3 * z * z - 1),
            (2, 1): np.sqrt(15 / (4 * np.pi)) * x * z,
            (2, -1): np.sqrt(15 / (4 * np.pi)) * yy * z,
            (2, 2): np.sqrt(15 / (16 * np.pi)) * (x * x - yy * yy),
            (2, -2): np.sqrt(15 / (4 * np.pi)) * x * yy,
            (3, 3): np.sqrt(35 / (32 * np.pi)) * (x**3 - 3 * x * yy * yy),
            (3, -3): np.sqrt(35 / (32 * np.pi)) * (3 * x * x * yy - yy**3),
        }
        worst = 0.0
        for (l, m), ref in cart.items():
            worst = max(worst, np.max(np.abs(y[row_of(l, m)] - ref)))
        out["f64_vs_cartesian"] = worst
        if worst > 1e-13:
            raise HarnessError(f"harmonic oracle violates Cartesian closed forms: {worst}")
    # addition theorem at high degree (float64 Legendre by stable recursion)
    y = ylm_f64(lmax_add, dirs)
    cosg = np.clip(dirs @ dirs.T, -1, 1)
    np.fill_diagonal(cosg, 1.0)
    p0 = np.ones_like(cosg)
    p1 = cosg.copy()
    worst = 0.0
    for l in range(lmax_add + 1):
        if l == 0:
            pl = p0
        elif l == 1:
            pl = p1
        else:
            pl = ((2 * l - 1) * cosg * p1 - (l - 1) * p0) / l
            p0, p1 = p1, pl
        blk = y[l * l : (l + 1) ** 2]
        # the reference P_l(cos gamma) itself is sensitive to the rounding of cos gamma:
        # |P_l'| <= l(l+1)/2, so the comparison is scaled by that conditioning
        scale = 2e-13 * (2 * l + 1) + 1e-15 * l * (l + 1) / 2 * (2 * l + 1) / (4 * np.pi)
        worst = max(worst, np.max(np.abs(blk.T @ blk - (2 * l + 1) / (4 * np.pi) * pl)) / scale)
    out["addition_theorem_error_over_bound"] = worst
    if worst > 1.0:
        raise HarnessError(f"harmonic oracle violates the addition theorem: {worst}")
    return out
