"""Reference radial maps, re-typed from the class docstrings of grid/rtransform.py in mpmath.

``forward(name, params)`` returns an mpmath function r(x); derivatives are taken with
``mp.diff`` (numerical differentiation at high working precision), so no hand-derived formula of
the library is shared.  Inverse-function identities

    x'(r) = 1/r',   x''(r) = -r''/r'^3,   x'''(r) = (3 r''^2 - r' r''')/r'^5

are applied to the oracle's own derivatives (and cross-checked in ``selftest`` by differentiating
a root-finding inverse).
"""

from __future__ import annotations

import mpmath as mp

DPS = 40


def forward(name, p):
    """mp function of the forward map of class ``name`` with parameter dict ``p``."""
    g = {k: (mp.mpf(v) if isinstance(v, (int, float)) else v) for k, v in p.items()}
    if name == "BeckeRTransform":
        return lambda x: g["R"] * (1 + x) / (1 - x) + g["rmin"]
    if name == "LinearFiniteRTransform":
        return lambda x: (g["rmax"] - g["rmin"]) / 2 * (1 + x) + g["rmin"]
    if name == "IdentityRTransform":
        return lambda x: x
    if name == "LinearInfiniteRTransform":
        return lambda x: (g["rmax"] - g["rmin"]) / g["b"] * x + g["rmin"]
    if name == "ExpRTransform":
        # r(x) = rmin exp(x log(rmax/rmin)/b),  r(b) = rmax
        return lambda x: g["rmin"] * mp.exp(x * mp.log(g["rmax"] / g["rmin"]) / g["b"])
    if name == "PowerRTransform":
        # r(x) = rmin (x+1)^((log rmax - log rmin)/log(b+1)),  r(b) = rmax
        return lambda x: g["rmin"] * (x + 1) ** ((mp.log(g["rmax"]) - mp.log(g["rmin"])) / mp.log(g["b"] + 1))
    if name == "HyperbolicRTransform":
        return lambda x: g["a"] * x / (1 - g["b"] * x)
    if name == "MultiExpRTransform":
        return lambda x: -g["R"] * mp.log((x + 1) / 2) + g["rmin"]
    if name == "KnowlesRTransform":
        return lambda x: g["rmin"] - g["R"] * mp.log(1 - mp.mpf(2) ** (-g["k"]) * (x + 1) ** g["k"])
    if name == "HandyRTransform":
        return lambda x: g["R"] * ((1 + x) / (1 - x)) ** g["m"] + g["rmin"]
    if name == "HandyModRTransform":
        def f(x):
            tm = mp.mpf(2) ** g["m"]
            s = g["rmax"] - g["rmin"]
            q = (1 + x) ** g["m"]
            return q * s / (tm * (1 - tm + s) - q * (s - tm)) + g["rmin"]
        return f
    raise KeyError(name)


def derivs(f, x, n=3):
    """[f(x), f'(x), f''(x), f'''(x)] as mp numbers."""
    x = mp.mpf(x)
    return [f(x)] + [mp.diff(f, x, k) for k in range(1, n + 1)]


def inverse_derivs(r1, r2, r3):
    """derivatives of the inverse map at r = f(x) from the forward derivatives at x."""
    return 1 / r1, -r2 / r1**3, (3 * r2**2 - r1 * r3) / r1**5


def selftest():
    """The inverse-function identities vs. mp.diff of a root-finding inverse (Becke, Knowles)."""
    from vf.cli import HarnessError

    worst = mp.mpf(0)
    with mp.workdps(DPS):
        for name, p, x0 in (
            ("BeckeRTransform", {"rmin": 0.1, "R": 1.5}, 0.3),
            ("KnowlesRTransform", {"rmin": 0.0, "R": 2.0, "k": 3}, -0.2),
            ("MultiExpRTransform", {"rmin": 0.0, "R": 1.0}, 0.4),
        ):
            f = forward(name, p)
            r0, r1, r2, r3 = derivs(f, x0)

            def inv(r, _f=f, _x0=x0):
                return mp.findroot(lambda x: _f(x) - r, _x0)

            ref = [mp.diff(inv, r0, k, h=mp.mpf("1e-6")) for k in (1, 2, 3)]
            got = inverse_derivs(r1, r2, r3)
            for a, b in zip(got, ref):
                worst = max(worst, abs(a - b) / (1 + abs(b)))
    if worst > mp.mpf("1e-8"):
        raise HarnessError(f"inverse-function identities fail the self-test: {worst}")
    return float(worst)
