"""E2 -- lattice enumerator: complete products / deviation-bounded products, worker pool.

``VERIF_SEED`` never selects which discrete cases run; ``jitter`` only moves real-valued
representatives inside a documented box.
"""

from __future__ import annotations

import itertools
import multiprocessing as mp
import os
import random


def product(*alphabets):
    """Complete Cartesian product, first alphabet slowest, simplest-first order preserved."""
    return itertools.product(*alphabets)


def deviations(alphabets, d):
    """All configurations differing from the baseline (first value of each alphabet) in at most
    ``d`` coordinates, every value of those coordinates; ordered by number of deviations."""
    base = [a[0] for a in alphabets]
    k = len(alphabets)
    yield tuple(base)
    for nd in range(1, min(d, k) + 1):
        for idx in itertools.combinations(range(k), nd):
            for vals in itertools.product(*[alphabets[i][1:] for i in idx]):
                cfg = list(base)
                for i, v in zip(idx, vals):
                    cfg[i] = v
                yield tuple(cfg)


def jitter(seed, tag, value, width):
    """Deterministic perturbation of ``value`` inside [value-width, value+width].

    seed 0 gives the unperturbed lattice.  ``tag`` (any str) decorrelates coordinates.
    """
    if seed == 0 or width == 0:
        return value
    rnd = random.Random(f"{seed}:{tag}")
    return value + (2.0 * rnd.random() - 1.0) * width


def _init_worker():
    for var in ("OMP_NUM_THREADS", "OPENBLAS_NUM_THREADS", "MKL_NUM_THREADS"):
        os.environ[var] = "1"


def chunks(seq, n):
    seq = list(seq)
    if not seq:
        return []
    n = max(1, n)
    size = (len(seq) + n - 1) // n
    return [seq[i : i + size] for i in range(0, len(seq), size)]


class _Guard:
    """Picklable wrapper: an unexpected exception inside a worker (almost always raised by the
    library under test on an input the worker did not anticipate) becomes a violation record
    instead of killing the whole run.  HarnessError (oracle self-tests, nondeterminism) passes."""

    def __init__(self, func):
        self.func = func

    def __call__(self, item):
        from vf.cli import HarnessError, _jsonable

        try:
            return self.func(item)
        except HarnessError:
            raise
        except Exception as exc:  # noqa: BLE001
            import traceback

            tb = traceback.extract_tb(exc.__traceback__)
            where = next((f"{fr.filename.split('/')[-1]}:{fr.lineno}:{fr.name}" for fr in reversed(tb) if "/grid/" in fr.filename), "harness")
            return {
                "evaluations": 1, "inadmissible": 0, "nontrivial": 0, "nontrivial_ids": [], "samples": [], "notes": [],
                "maxima": {}, "section": "unexpected-exception",
                "violations": [{
                    "key": f"unexpected-exception:{type(exc).__name__}:{where}",
                    "what": f"{type(exc).__name__}: {exc} (raised at {where}) while executing case {str(_jsonable(item))[:300]}",
                    "case": {"route": "unexpected-exception", "item": _jsonable(item)},
                    "details": {"traceback": traceback.format_exc()[-1500:]},
                }],
            }


def pmap(func, items, workers, chunksize=1, guard=True):
    """Order-preserving parallel map over a fork pool of long-lived workers.

    ``func`` must be a module-level function; results are plain picklable data.
    With workers<=1 runs inline (used to show results do not depend on the pool size).
    """
    items = list(items)
    if guard:
        func = _Guard(func)
    if workers <= 1 or len(items) <= 1:
        return [func(it) for it in items]
    ctx = mp.get_context("fork")
    with ctx.Pool(min(workers, len(items)), initializer=_init_worker) as pool:
        return pool.map(func, items, chunksize=chunksize)


def pmap_unordered(func, items, workers, chunksize=1, guard=True):
    items = list(items)
    if guard:
        func = _Guard(func)
    if workers <= 1 or len(items) <= 1:
        for it in items:
            yield func(it)
        return
    ctx = mp.get_context("fork")
    with ctx.Pool(min(workers, len(items)), initializer=_init_worker) as pool:
        yield from pool.imap_unordered(func, items, chunksize=chunksize)
