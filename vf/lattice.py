"""E2 -- lattice enumerator: complete products / deviation-bounded products, worker pool.

``VERIF_SEED`` never selects which discrete cases run; ``jitter`` only moves real-valued
representatives inside a documented box.
"""

from __future__ import annotations

import itertools
import multiprocessing as mp
import os
import random


def product(*alphabets):
    """Complete Cartesian product, first alphabet slowest, simplest-first order preserved."""
    return itertools.product(*alphabets)


def deviations(alphabets, d):
    """All configurations differing from the baseline (first value of each alphabet) in at most
    ``d`` coordinates, every value of those coordinates; ordered by number of deviations."""
    base = [a[0] for a in alphabets]
    k = len(alphabets)
    yield tuple(base)
    for nd in range(1, min(d, k) + 1):
        for idx in itertools.combinations(range(k), nd):
            for vals in itertools.product(*[alphabets[i][1:] for i in idx]):
                cfg = list(base)
                for i, v in zip(idx, vals):
                    cfg[i] = v
                yield tuple(cfg)


def jitter(seed, tag, value, width):
    """Deterministic perturbation of ``value`` inside [value-width, value+width].

    seed 0 gives the unperturbed lattice.  ``tag`` (any str) decorrelates coordinates.
    """
    if seed == 0 or width == 0:
        return value
    rnd = random.Random(f"{seed}:{tag}")
    return value + (2.0 * rnd.random() - 1.0) * width


def _init_worker():
    for var in ("OMP_NUM_THREADS", "OPENBLAS_NUM_THREADS", "MKL_NUM_THREADS"):
        os.environ[var] = "1"


def chunks(seq, n):
    seq = list(seq)
    if not seq:
        return []
    n = max(1, n)
    size = (len(seq) + n - 1) // n
    return [seq[i : i + size] for i in range(0, len(seq), size)]


def pmap(func, items, workers, chunksize=1):
    """Order-preserving parallel map over a fork pool of long-lived workers.

    ``func`` must be a module-level function; results are plain picklable data.
    With workers<=1 runs inline (used to show results do not depend on the pool size).
    """
    items = list(items)
    if workers <= 1 or len(items) <= 1:
        return [func(it) for it in items]
    ctx = mp.get_context("fork")
    with ctx.Pool(min(workers, len(items)), initializer=_init_worker) as pool:
        return pool.map(func, items, chunksize=chunksize)


def pmap_unordered(func, items, workers, chunksize=1):
    items = list(items)
    if workers <= 1 or len(items) <= 1:
        for it in items:
            yield func(it)
        return
    ctx = mp.get_context("fork")
    with ctx.Pool(min(workers, len(items)), initializer=_init_worker) as pool:
        yield from pool.imap_unordered(func, items, chunksize=chunksize)
