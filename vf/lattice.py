"""E2 -- lattice enumerator: complete products / deviation-bounded products, worker pool.

``VERIF_SEED`` never selects which discrete cases run; ``jitter`` only moves real-valued
representatives inside a documented box.
"""

from __future__ import annotations

import itertools
import multiprocessing as mp
import os
import random


def product(*alphabets):
    """Complete Cartesian product, first alphabet slowest, simplest-first order preserved."""
    return itertools.product(*alphabets)


def deviations(alphabets, d):
    """All configurations differing from the baseline (first value of each alphabet) in at most
    ``d`` coordinates, every value of those coordinates; ordered by number of deviations."""
    base = [a[0] for a in alphabets]
    k = len(alphabets)
    yield tuple(base)
    for nd in range(1, min(d, k) + 1):
        for idx in itertools.combinations(range(k), nd):
            for vals in itertools.product(*[alphabets[i][1:] for i in idx]):
                cfg = list(base)
                for i, v in zip(idx, vals):
                    cfg[i] = v
                yield tuple(cfg)


def jitter(seed, tag, value, width):
    """Deterministic perturbation of ``value`` inside [value-width, value+width].

    seed 0 gives the unperturbed lattice.  ``tag`` (any str) decorrelates coordinates.
    """
    if seed == 0 or width == 0:
        return value
    rnd = random.Random(f"{seed}:{tag}")
    return value + (2.0 * rnd.random() - 1.0) * width


def _init_worker():
    for var in ("OMP_NUM_THREADS", "OPENBLAS_NUM_THREADS", "MKL_NUM_THREADS"):
        os.environ[var] = "1"


def chunks(seq, n):
    seq = list(seq)
    if not seq:
        return []
    n = max(1, n)
    size = (len(seq) + n - 1) // n
    return [seq[i : i + size] for i in range(0, len(seq), size)]


class CaseTimeout(BaseException):
    """Raised (from a signal handler) inside a case that used more CPU time than any case needs on the unchanged
    tree.  A BaseException so that neither the library's nor a check's ``except Exception`` swallows it."""


def default_cpu_limit():
    import os

    return float(os.environ.get("VERIF_CASE_CPU_LIMIT", "900"))


class cpu_limit:
    """Context manager: CaseTimeout after ``seconds`` of CPU time of this process (ITIMER_PROF, so machine load does not
    matter), or after 30x that in wall-clock time (ITIMER_REAL, for waits that burn no CPU).  Main thread only."""

    def __init__(self, seconds):
        self.seconds = seconds

    def _fire(self, signum, frame):
        raise CaseTimeout(f"no result after {self.seconds:g} s of CPU time")

    def __enter__(self):
        import signal
        import threading

        self.active = self.seconds and self.seconds > 0 and threading.current_thread() is threading.main_thread()
        if self.active:
            self.old = (signal.signal(signal.SIGPROF, self._fire), signal.signal(signal.SIGALRM, self._fire))
            signal.setitimer(signal.ITIMER_PROF, self.seconds)
            signal.setitimer(signal.ITIMER_REAL, 30 * self.seconds)
        return self

    def __exit__(self, *exc):
        import signal

        if self.active:
            signal.setitimer(signal.ITIMER_PROF, 0)
            signal.setitimer(signal.ITIMER_REAL, 0)
            signal.signal(signal.SIGPROF, self.old[0])
            signal.signal(signal.SIGALRM, self.old[1])
        return False


def timeout_record(item, seconds, what="case"):
    from vf.cli import _jsonable

    return {
        "evaluations": 1, "inadmissible": 0, "nontrivial": 0, "nontrivial_ids": [], "samples": [], "notes": [],
        "maxima": {}, "section": "case-timeout",
        "violations": [{
            "key": "case-did-not-finish",
            "what": f"{what} {str(_jsonable(item))[:300]} did not finish within {seconds:g} s of CPU time (on the unchanged tree "
                    f"every case of this check finishes in a small fraction of that): the call hangs or has become "
                    f"orders of magnitude slower",
            "case": {"route": "case-timeout", "item": _jsonable(item)},
            "details": {},
        }],
    }


class _Guard:
    """Picklable wrapper: an unexpected exception inside a worker (almost always raised by the
    library under test on an input the worker did not anticipate) becomes a violation record
    instead of killing the whole run.  HarnessError (oracle self-tests, nondeterminism) passes."""

    def __init__(self, func, limit=None):
        self.func = func
        self.limit = default_cpu_limit() if limit is None else limit

    def __call__(self, item):
        from vf.cli import HarnessError, _jsonable

        try:
            with cpu_limit(self.limit):
                return self.func(item)
        except CaseTimeout:
            return timeout_record(item, self.limit)
        except HarnessError:
            raise
        except Exception as exc:  # noqa: BLE001
            import traceback

            tb = traceback.extract_tb(exc.__traceback__)
            where = next((f"{fr.filename.split('/')[-1]}:{fr.lineno}:{fr.name}" for fr in reversed(tb) if "/grid/" in fr.filename), "harness")
            return {
                "evaluations": 1, "inadmissible": 0, "nontrivial": 0, "nontrivial_ids": [], "samples": [], "notes": [],
                "maxima": {}, "section": "unexpected-exception",
                "violations": [{
                    "key": f"unexpected-exception:{type(exc).__name__}:{where}",
                    "what": f"{type(exc).__name__}: {exc} (raised at {where}) while executing case {str(_jsonable(item))[:300]}",
                    "case": {"route": "unexpected-exception", "item": _jsonable(item)},
                    "details": {"traceback": traceback.format_exc()[-1500:]},
                }],
            }


def pmap(func, items, workers, chunksize=1, guard=True, limit=None):
    """Order-preserving parallel map over a fork pool of long-lived workers.

    ``func`` must be a module-level function; results are plain picklable data.
    With workers<=1 runs inline (used to show results do not depend on the pool size).
    """
    items = list(items)
    if guard:
        func = _Guard(func, limit)
    if workers <= 1 or len(items) <= 1:
        return [func(it) for it in items]
    ctx = mp.get_context("fork")
    with ctx.Pool(min(workers, len(items)), initializer=_init_worker) as pool:
        return pool.map(func, items, chunksize=chunksize)


def pmap_unordered(func, items, workers, chunksize=1, guard=True, limit=None):
    items = list(items)
    if guard:
        func = _Guard(func, limit)
    if workers <= 1 or len(items) <= 1:
        for it in items:
            yield func(it)
        return
    ctx = mp.get_context("fork")
    with ctx.Pool(min(workers, len(items)), initializer=_init_worker) as pool:
        yield from pool.imap_unordered(func, items, chunksize=chunksize)


def refill_check(res, key, case, fn, contents_a, contents_b, fresh_fn=None, rtol=1e-13, atol=0.0):
    """History "same array objects, refilled in place" (identity-keyed memos, seeded change C03-D): call ``fn`` with
    buffers holding ``contents_a``, overwrite the SAME buffers in place with ``contents_b``, call again; the second result
    must equal what ``fresh_fn`` (default ``fn``) returns for fresh copies of ``contents_b``.  ``res`` is a WorkerResult or
    a Ctx; results are compared as float arrays (tuples / lists element-wise)."""
    import numpy as np

    def flat(x):
        if isinstance(x, (tuple, list)):
            return [flat(v) for v in x]
        if hasattr(x, "points") and hasattr(x, "weights"):
            return [np.asarray(x.points, dtype=float), np.asarray(x.weights, dtype=float)]
        return np.asarray(x, dtype=float)

    def same(a, b):
        if isinstance(a, list):
            return isinstance(b, list) and len(a) == len(b) and all(same(x, y) for x, y in zip(a, b))
        return a.shape == b.shape and np.allclose(a, b, rtol=rtol, atol=atol, equal_nan=True)

    res.count()
    bufs = [np.array(a, copy=True) for a in contents_a]
    fn(*bufs)
    for buf, b in zip(bufs, contents_b):
        buf[...] = b
    second = flat(fn(*bufs))
    want = flat((fresh_fn or fn)(*[np.array(b, copy=True) for b in contents_b]))
    res.nontrivial()
    if not same(second, want):
        res.violation(f"{key}:stale-after-in-place-refill", f"{key}: a second call with the same array objects refilled in place "
                      f"does not return what a call with fresh arrays of the same contents returns", case)
