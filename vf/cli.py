"""Command-line driver, evidence writer, violation/replay writer, known-finding matcher.

Every property module ``vf.props.cNN`` exposes

    LEVEL   = "exploration" | "model_checking"
    def run(ctx)            -- enumerate, call ctx.violation(...) / ctx.ok(...) etc.
    def replay(ctx, case)   -- re-execute one recorded case (no explorer), report the same way

Exit status: 0 held (known findings are printed, not alarms), 1 violation(s) not listed in
known_findings.json, 2 harness / oracle self-test failure.
"""

from __future__ import annotations

import hashlib
import importlib
import json
import os
import re
import subprocess
import sys
import time
import traceback

ROOT = os.path.dirname(os.path.dirname(os.path.abspath(__file__)))


class HarnessError(Exception):
    """The machinery itself is broken (oracle self-test, nondeterminism, ...): exit 2."""


def _jsonable(x, depth=0):
    import numpy as np

    if depth > 8:
        return repr(x)
    if isinstance(x, (str, bool)) or x is None:
        return x
    if isinstance(x, (int, np.integer)):
        return int(x)
    if isinstance(x, (float, np.floating)):
        f = float(x)
        return f if f == f and abs(f) != float("inf") else repr(f)
    if isinstance(x, complex):
        return repr(x)
    if isinstance(x, np.ndarray):
        if x.size > 64:
            return {"ndarray": list(x.shape), "head": _jsonable(x.ravel()[:8].tolist(), depth + 1)}
        return _jsonable(x.tolist(), depth + 1)
    if isinstance(x, dict):
        return {str(k): _jsonable(v, depth + 1) for k, v in x.items()}
    if isinstance(x, (list, tuple, set, frozenset)):
        return [_jsonable(v, depth + 1) for v in x]
    return repr(x)


class Ctx:
    """Per-run context handed to a property module."""

    def __init__(self, pid, tier, seed, level, replaying=False):
        self.pid = pid
        self.tier = tier
        self.seed = seed
        self.level = level
        self.replaying = replaying
        self.workers = int(os.environ.get("VERIF_WORKERS", "0")) or min(16, os.cpu_count() or 1)
        self.t0 = time.time()
        self.evaluations = 0
        self.inadmissible = 0
        self._nontrivial = set()
        self._nontrivial_count = 0
        self.samples = []
        self.rule = ""
        self.exhaustive = False
        self.cov = {}  # extra coverage keys (alphabets, bounds, caps, tolerances ...)
        self.assumptions = []
        self.found = {}  # key -> record (first occurrence), insertion ordered
        self.found_count = {}
        self.sections = {}  # name -> dict(evaluations=..., ...)
        self.states = 0
        self.transitions = 0
        self.traces = 0
        self.notes = []

    # ------------------------------------------------------------------ counting
    @property
    def thorough(self):
        return self.tier == "thorough"

    def count(self, n=1, section=None):
        self.evaluations += n
        if section:
            self.sections.setdefault(section, {"evaluations": 0, "nontrivial": 0, "inadmissible": 0})
            self.sections[section]["evaluations"] += n

    def nontrivial(self, ident=None, n=1, section=None):
        """Register distinct non-trivial cases.

        Either give a hashable identity (deduplicated in a set) or, when the enumerator
        guarantees distinctness by construction, a plain count ``n``.
        """
        if ident is not None:
            if ident not in self._nontrivial:
                self._nontrivial.add(ident)
                if section:
                    self.sections.setdefault(
                        section, {"evaluations": 0, "nontrivial": 0, "inadmissible": 0}
                    )
                    self.sections[section]["nontrivial"] += 1
        else:
            self._nontrivial_count += n
            if section:
                self.sections.setdefault(
                    section, {"evaluations": 0, "nontrivial": 0, "inadmissible": 0}
                )
                self.sections[section]["nontrivial"] += n

    def inadm(self, n=1, section=None):
        self.inadmissible += n
        if section:
            self.sections.setdefault(section, {"evaluations": 0, "nontrivial": 0, "inadmissible": 0})
            self.sections[section]["inadmissible"] += n

    def sample(self, case, limit=12):
        if len(self.samples) < limit:
            self.samples.append(_jsonable(case))

    def note(self, text):
        self.notes.append(text)

    # ------------------------------------------------------------------ violations
    def violation(self, key, what, case, **details):
        """Report a violation.

        ``key`` identifies the failing input / call site / history *and* the signature of the
        deviation; it is what known_findings.json is matched against.  ``case`` must be enough
        for ``replay`` to re-execute just this case.
        """
        self.found_count[key] = self.found_count.get(key, 0) + 1
        if key not in self.found:
            self.found[key] = {
                "property": self.pid,
                "key": key,
                "what": what,
                "case": _jsonable(case),
                "details": _jsonable(details),
                "seed": self.seed,
                "tier": self.tier,
            }

    def guarded(self, name, fn, *args):
        """Run a serial sub-check; an exception raised from inside the library under test becomes a
        violation (the sub-check is abandoned), anything else is a harness error."""
        from vf import lattice

        limit = 4 * lattice.default_cpu_limit()
        try:
            with lattice.cpu_limit(limit):
                return fn(*args)
        except lattice.CaseTimeout:
            self.count()
            self.violation(f"{name}:sub-check-did-not-finish", f"sub-check {name} did not finish within {limit:g} s of CPU time "
                           f"(it takes a small fraction of that on the unchanged tree): a call hangs or has become orders of "
                           f"magnitude slower", {"route": "case-timeout", "sub": name})
            return None
        except HarnessError:
            raise
        except Exception as exc:  # noqa: BLE001
            # Also when the exception surfaces in the check's own code (e.g. a shape mismatch while
            # comparing): on the unchanged tree every check runs silently, so an exception here means
            # the library returned something the comparison did not anticipate.
            tb = traceback.extract_tb(exc.__traceback__)
            frames = [fr for fr in tb if "/grid/" in fr.filename and "/vf/" not in fr.filename] or list(tb)
            fr = frames[-1]
            where = f"{fr.filename.split('/')[-1]}:{fr.lineno}:{fr.name}"
            self.count()
            self.violation(f"{name}:unexpected-exception:{type(exc).__name__}:{where}",
                           f"sub-check {name}: {type(exc).__name__}: {exc} (raised at {where})",
                           {"route": "unexpected-exception", "sub": name},
                           traceback=traceback.format_exc()[-1500:])
            return None

    def merge(self, res):
        """Merge a worker result dict produced by ``WorkerResult.as_dict``."""
        self.evaluations += res.get("evaluations", 0)
        self.inadmissible += res.get("inadmissible", 0)
        self._nontrivial_count += res.get("nontrivial", 0)
        for ident in res.get("nontrivial_ids", ()):
            self._nontrivial.add(ident)
        sec = res.get("section")
        if sec:
            s = self.sections.setdefault(sec, {"evaluations": 0, "nontrivial": 0, "inadmissible": 0})
            s["evaluations"] += res.get("evaluations", 0)
            s["nontrivial"] += res.get("nontrivial", 0) + len(res.get("nontrivial_ids", ()))
            s["inadmissible"] += res.get("inadmissible", 0)
        for v in res.get("violations", ()):
            self.violation(v["key"], v["what"], v["case"], **v.get("details", {}))
        for s in res.get("samples", ()):
            self.sample(s)
        for n in res.get("notes", ()):
            if n not in self.notes:
                self.notes.append(n)
        for k, v in res.get("maxima", {}).items():
            cur = self.cov.setdefault("observed_maxima", {})
            if k not in cur or v > cur[k]:
                cur[k] = v

    # ------------------------------------------------------------------ finishing
    @property
    def distinct_nontrivial(self):
        return len(self._nontrivial) + self._nontrivial_count


class WorkerResult:
    """Accumulator used inside pool workers; plain data so it pickles."""

    def __init__(self, section=None):
        self.d = {
            "evaluations": 0,
            "inadmissible": 0,
            "nontrivial": 0,
            "nontrivial_ids": [],
            "violations": [],
            "samples": [],
            "notes": [],
            "maxima": {},
            "section": section,
        }

    def count(self, n=1):
        self.d["evaluations"] += n

    def nontrivial(self, ident=None, n=1):
        if ident is None:
            self.d["nontrivial"] += n
        else:
            self.d["nontrivial_ids"].append(ident)

    def inadm(self, n=1):
        self.d["inadmissible"] += n

    def violation(self, key, what, case, **details):
        # keep at most a few records per key per shard to bound memory
        if sum(1 for v in self.d["violations"] if v["key"] == key) < 3:
            self.d["violations"].append(
                {"key": key, "what": what, "case": _jsonable(case), "details": _jsonable(details)}
            )

    def sample(self, case):
        if len(self.d["samples"]) < 2:
            self.d["samples"].append(_jsonable(case))

    def note(self, text):
        if text not in self.d["notes"]:
            self.d["notes"].append(text)

    def maximum(self, name, value):
        value = float(value)
        if value == value and (name not in self.d["maxima"] or value > self.d["maxima"][name]):
            self.d["maxima"][name] = value

    def as_dict(self):
        return self.d


# ---------------------------------------------------------------------- helpers
def _safe(name):
    return re.sub(r"[^A-Za-z0-9_.=+-]+", "_", name)[:150]


def load_known():
    path = os.path.join(ROOT, "known_findings.json")
    if not os.path.exists(path):
        return []
    with open(path) as fh:
        return json.load(fh)["findings"]


def source_binding():
    import grid

    src = os.path.dirname(os.path.dirname(os.path.abspath(grid.__file__)))
    repo = os.path.dirname(src)
    out = {"grid_file": grid.__file__}
    try:
        out["head"] = subprocess.run(
            ["git", "-C", repo, "rev-parse", "HEAD"], capture_output=True, text=True, timeout=20
        ).stdout.strip()
        diff = subprocess.run(
            ["git", "-C", repo, "diff", "HEAD", "--", "src/grid"],
            capture_output=True,
            timeout=60,
        ).stdout
        out["diff_sha1"] = hashlib.sha1(diff).hexdigest()
        out["dirty"] = bool(diff)
    except Exception as exc:  # pragma: no cover - git missing
        out["git_error"] = repr(exc)
    return out


def setup_import_path():
    """Honour VERIF_GRID_SRC (scratch copies of the repository used for mutants)."""
    override = os.environ.get("VERIF_GRID_SRC")
    if override:
        override = os.path.abspath(override)
        if not os.path.isdir(os.path.join(override, "grid")):
            raise HarnessError(f"VERIF_GRID_SRC={override} has no grid package")
        sys.path.insert(0, override)
    for var in ("OMP_NUM_THREADS", "OPENBLAS_NUM_THREADS", "MKL_NUM_THREADS"):
        os.environ.setdefault(var, "1")
    import grid  # noqa: F401

    if override and not os.path.abspath(grid.__file__).startswith(override):
        raise HarnessError("grid was not imported from VERIF_GRID_SRC")


def write_evidence(ctx, mod, n_viol, n_known):
    cov = {
        "evaluations": int(ctx.evaluations),
        "distinct_nontrivial": int(ctx.distinct_nontrivial),
        "rule": ctx.rule or getattr(mod, "RULE", ""),
        "samples": ctx.samples or ["(no sample recorded)"],
        "exhaustive": bool(ctx.exhaustive),
        "inadmissible_cases": int(ctx.inadmissible),
        "sections": ctx.sections,
        "known_findings_matched": n_known,
        "notes": ctx.notes,
        "source": source_binding(),
        "workers": ctx.workers,
    }
    if ctx.level == "model_checking":
        cov["states"] = int(ctx.states)
        cov["transitions"] = int(ctx.transitions)
        cov["traces_validated_against_impl"] = int(ctx.traces)
    cov.update(_jsonable(ctx.cov))
    ev = {
        "property_id": ctx.pid,
        "tier": ctx.tier,
        "seed": ctx.seed,
        "level": ctx.level,
        "coverage": cov,
        "assumptions": ctx.assumptions or list(getattr(mod, "ASSUMPTIONS", [])),
        "wall_s": round(time.time() - ctx.t0, 3),
        "violations": n_viol,
    }
    os.makedirs(os.path.join(ROOT, "evidence"), exist_ok=True)
    path = os.path.join(ROOT, "evidence", f"{ctx.pid}.json")
    tmp = path + ".tmp"
    with open(tmp, "w") as fh:
        json.dump(ev, fh, indent=1, sort_keys=True)
        fh.write("\n")
    os.replace(tmp, path)
    return path


def finish(ctx, mod, write=True):
    known = {(k["property"], k["key"]): k for k in load_known()}
    n_viol = 0
    n_known = 0
    lines = []
    rdir = os.path.join(ROOT, "replays", ctx.pid)
    for key, rec in ctx.found.items():
        rec["occurrences"] = ctx.found_count.get(key, 1)
        entry = known.get((ctx.pid, key))
        os.makedirs(rdir, exist_ok=True)
        path = os.path.join(rdir, _safe(key) + ".json")
        with open(path, "w") as fh:
            json.dump(rec, fh, indent=1, sort_keys=True)
            fh.write("\n")
        if entry is not None and entry.get("status") == "open":
            n_known += 1
            lines.append(f"KNOWN-FINDING: property={ctx.pid} {key}: {entry.get('what', rec['what'])}")
        else:
            n_viol += 1
            lines.append(f"VIOLATION property={ctx.pid} replay={path}")
            lines.append(f"  key={key} :: {rec['what']} (x{rec['occurrences']})")
    if write and not os.environ.get("VERIF_NO_EVIDENCE"):
        # (VERIF_NO_EVIDENCE is set by tools/run_on.sh when a scratch copy is checked, so that
        # the committed evidence always describes /repo itself)
        write_evidence(ctx, mod, n_viol, n_known)
    for ln in lines:
        print(ln)
    secs = time.time() - ctx.t0
    print(
        f"[{ctx.pid}] tier={ctx.tier} seed={ctx.seed} evaluations={ctx.evaluations} "
        f"distinct_nontrivial={ctx.distinct_nontrivial} inadmissible={ctx.inadmissible} "
        + (f"states={ctx.states} transitions={ctx.transitions} " if ctx.level == "model_checking" else "")
        + f"violations={n_viol} known={n_known} wall={secs:.1f}s"
    )
    return 1 if n_viol else 0


def main(argv=None):
    argv = list(sys.argv[1:] if argv is None else argv)
    if not argv:
        print("usage: check CNN [--tier quick|thorough] [--seed N] [--replay FILE]")
        return 2
    pid = argv.pop(0).upper()
    tier = os.environ.get("VERIF_TIER", "quick") or "quick"
    seed = int(os.environ.get("VERIF_SEED", "0") or 0)
    replay = None
    while argv:
        a = argv.pop(0)
        if a == "--tier":
            tier = argv.pop(0)
        elif a == "--seed":
            seed = int(argv.pop(0))
        elif a == "--replay":
            replay = argv.pop(0)
        else:
            print(f"unknown argument {a}")
            return 2
    if tier not in ("quick", "thorough"):
        print(f"unknown tier {tier}")
        return 2
    try:
        setup_import_path()
        mod = importlib.import_module(f"vf.props.{pid.lower()}")
        ctx = Ctx(pid, tier, seed, mod.LEVEL, replaying=replay is not None)
        if replay:
            with open(replay) as fh:
                rec = json.load(fh)
            ctx.seed = int(rec.get("seed", seed))
            ctx.tier = rec.get("tier", tier)
            if isinstance(rec["case"], dict) and rec["case"].get("route") in ("case-timeout", "unexpected-exception"):
                # recorded by the generic guards, which know the work item but not the check's own case format: the
                # replay is the whole run (same tier, same seed), without touching the evidence
                mod.run(ctx)
            else:
                mod.replay(ctx, rec["case"])
            return finish(ctx, mod, write=False)
        mod.run(ctx)
        return finish(ctx, mod)
    except HarnessError as exc:
        print(f"HARNESS-ERROR property={pid}: {exc}")
        traceback.print_exc()
        return 2
    except Exception as exc:
        # An exception that escapes a check.  On the unchanged tree every registered check runs to
        # completion (that is verified for several seeds before registration), so this is reported as
        # a violation with the traceback as replay artefact rather than as a silent harness failure.
        traceback.print_exc()
        try:
            ctx.violation(f"unexpected-exception:{type(exc).__name__}",
                          f"the check aborted with {type(exc).__name__}: {exc}",
                          {"route": "unexpected-exception"}, traceback=traceback.format_exc()[-3000:])
            return max(1, finish(ctx, mod, write=not replay))
        except Exception:  # pragma: no cover
            print(f"HARNESS-ERROR property={pid}: unexpected {type(exc).__name__}: {exc}")
            return 2
