"""C01 -- every 1D quadrature rule is exact on its polynomial class, for every size.

Engine E2: product  rule class x n (both parities; quick 1..41, thorough 1..128) x extra
parameter alphabet x every polynomial degree up to the nominal one, plus n in {-1, 0, 1} and even
n for the odd-only rules (must build a well-formed grid or raise ValueError).

Oracles (independent of onedgrid.py):
 (a) exact moments: int_{-1}^{1} x^k; weighted moments int x^k/sqrt(1-x^2) = pi (k-1)!!/k!!,
     int x^k sqrt(1-x^2) = B((k+1)/2, 3/2), int_0^inf x^(alpha+k) e^-x = Gamma(alpha+k+1) for the
     weight-divided Gauss rules (applied to weight x polynomial, as the statement says);
 (b) closed-form definitions re-typed from the class docstrings / the literature in mpmath: nodes,
     and weights = step x d(node map)/dt by mp.diff for the variable-substitution rules, g'(x_i) w_i
     for the Trefethen maps (g' by mp.diff of g);
 (c) structure: exactly n nodes, strictly ascending, inside the declared domain, finite weights.
Parameter combinations whose *defining* formula leaves float64 (nodes that round to equal or
non-finite doubles) are inadmissible and counted.
"""

from __future__ import annotations

import math
import warnings
from fractions import Fraction

import mpmath as mp
import numpy as np

from vf import lattice
from vf.cli import WorkerResult


def _gt(a, b):
    """a > b that is also True when a is NaN (a silent NaN must never pass a tolerance test)."""
    return ~(np.asarray(a) <= np.asarray(b))


LEVEL = "exploration"
RULE = (
    "product rule class x n x extra parameter x polynomial degree 0..nominal; one evaluation = one "
    "moment or one node/weight comparison; distinct non-trivial = distinct (class, n, parameter, "
    "degree or node) with a finite oracle value"
)
ASSUMPTIONS = [
    "closed forms re-typed from docstrings/literature and mp.diff at 30 digits are exact for this purpose",
    "'exact up to rounding' = |error| <= c*eps*sum|w_i f(x_i)| with c = 1e4 (Gauss rules from SciPy/NumPy root finders: 1e5)",
]

EPS = np.finfo(float).eps
ALPHAS = (0.0, -0.5, 0.5, 1.0, 2.5, -0.9, 7, 12.5)
DELTAS = (0.1, 0.05, 0.5)
HS = (0.1, 0.05, 0.5, 1.0)
DS = (9, 1, 5)
RHOS = (1.1, 1.05, 1.4, 2.0)
ODD_ONLY = ("TanhSinh", "Simpson", "ExpSinh", "LogExpSinh", "ExpExp", "SingleTanh", "SingleExp", "SingleArcSinhExp")
HALF_LINE = ("UniformInteger", "GaussLaguerre", "ExpSinh", "LogExpSinh", "ExpExp", "SingleExp", "SingleArcSinhExp")
# rules whose weights span many orders of magnitude: each weight is held to a relative tolerance of its own
WIDE = ("ExpSinh", "LogExpSinh", "ExpExp", "SingleTanh", "SingleExp", "SingleArcSinhExp")
GENERAL_BASES = ("ClenshawCurtis", "GaussChebyshevType2", "GaussLegendre", "FejerFirst")


def catalogue():
    """(class name, list of kwargs dicts)."""
    cat = [
        ("GaussLegendre", [{}]), ("GaussChebyshev", [{}]), ("GaussChebyshevType2", [{}]),
        ("GaussChebyshevLobatto", [{}]), ("Trapezoidal", [{}]), ("RectangleRuleSineEndPoints", [{}]),
        ("Simpson", [{}]), ("MidPoint", [{}]), ("ClenshawCurtis", [{}]), ("FejerFirst", [{}]),
        ("FejerSecond", [{}]), ("UniformInteger", [{}]),
        ("GaussLaguerre", [{"alpha": a} for a in ALPHAS]),
        ("TanhSinh", [{"delta": d} for d in DELTAS]),
        ("TrefethenCC", [{"d": d} for d in DS]), ("TrefethenGC2", [{"d": d} for d in DS]),
        ("TrefethenGeneral", [{"quadrature": q, "d": d} for q in GENERAL_BASES for d in DS]),
        ("TrefethenStripCC", [{"rho": r} for r in RHOS]), ("TrefethenStripGC2", [{"rho": r} for r in RHOS]),
        ("TrefethenStripGeneral", [{"quadrature": q, "rho": r} for q in GENERAL_BASES for r in RHOS]),
    ]
    for name in ("ExpSinh", "LogExpSinh", "ExpExp", "SingleTanh", "SingleExp", "SingleArcSinhExp"):
        cat.append((name, [{"h": h} for h in HS]))
    return cat


def build(name, n, kw):
    import grid.onedgrid as og

    kw = dict(kw)
    if "quadrature" in kw:
        kw["quadrature"] = getattr(og, kw["quadrature"])
    if n % 5 == 3:
        n = np.int64(n)   # sizes come out of NumPy computations as often as they are typed in
    with warnings.catch_warnings():
        warnings.simplefilter("ignore")
        with np.errstate(all="ignore"):
            return getattr(og, name)(n, **kw)


# ------------------------------------------------------------------------------ oracles
def moment_plain(k):
    return 0.0 if k % 2 else 2.0 / (k + 1)


def moment_cheb1(k):
    """int_{-1}^{1} x^k / sqrt(1 - x^2) dx = pi (k-1)!!/k!! (k even)."""
    if k % 2:
        return 0.0
    r = Fraction(1)
    for j in range(1, k // 2 + 1):
        r *= Fraction(2 * j - 1, 2 * j)
    return math.pi * float(r)


def moment_cheb2(k):
    """int_{-1}^{1} x^k sqrt(1 - x^2) dx = B((k+1)/2, 3/2) (k even)."""
    if k % 2:
        return 0.0
    return float(mp.beta(mp.mpf(k + 1) / 2, mp.mpf(3) / 2))


def node_map(name, par):
    """Variable-substitution rules: mp function x(t) and the step; nodes at t = k*step, k symmetric."""
    half_pi = mp.pi / 2
    if name == "TanhSinh":
        return lambda t: mp.tanh(half_pi * mp.sinh(t))
    if name == "ExpSinh":
        return lambda t: mp.exp(half_pi * mp.sinh(t))
    if name == "LogExpSinh":
        return lambda t: mp.log(mp.exp(half_pi * mp.sinh(t)) + 1)
    if name == "ExpExp":
        return lambda t: mp.exp(t) * mp.exp(-mp.exp(-t))
    if name == "SingleTanh":
        return lambda t: mp.tanh(t)
    if name == "SingleExp":
        return lambda t: mp.exp(t)
    if name == "SingleArcSinhExp":
        return lambda t: mp.asinh(mp.exp(t))
    raise KeyError(name)


def g_poly(d):
    """Hale-Trefethen polynomial maps (degree 1, 5, 9), normalised to g(1) = 1."""
    if d == 1:
        return lambda x: x
    if d == 5:
        return lambda x: (120 * x + 20 * x**3 + 9 * x**5) / mp.mpf(149)
    if d == 9:
        return lambda x: (40320 * x + 6720 * x**3 + 3024 * x**5 + 1800 * x**7 + 1225 * x**9) / mp.mpf(53089)
    raise KeyError(d)


def g_strip(rho):
    """Hale-Trefethen strip map (eq. re-typed from the paper / module helper docstring)."""
    rho = mp.mpf(rho)
    tau = mp.pi / mp.log(rho)
    d = mp.mpf(1) / 2 + 1 / (mp.exp(tau * mp.pi) + 1)
    c = 1 / (mp.log(1 + mp.exp(-tau * mp.pi)) - mp.log(2) + mp.pi * tau * d / 2)

    def g(s):
        u = mp.asin(s)
        return c * (mp.log(1 + mp.exp(-tau * (mp.pi / 2 + u))) - mp.log(1 + mp.exp(-tau * (mp.pi / 2 - u))) + d * tau * u)

    return g


def closed_form(name, n, kw):
    """(nodes, weights) as lists of mp numbers from the mathematical definition, or None."""
    pi = mp.pi
    if name == "GaussChebyshev":
        xs = [mp.cos((2 * i - 1) * pi / (2 * n)) for i in range(n, 0, -1)]
        return xs, [pi / n * mp.sqrt(1 - x * x) for x in xs]
    if name == "GaussChebyshevType2":
        th = [i * pi / (n + 1) for i in range(n, 0, -1)]
        return [mp.cos(t) for t in th], [pi / (n + 1) * mp.sin(t) for t in th]
    if name == "GaussChebyshevLobatto":
        th = [(n - 1 - i) * pi / (n - 1) for i in range(n)]
        w = [pi / (n - 1) * mp.sin(t) for t in th]
        w[0] /= 2
        w[-1] /= 2
        return [mp.cos(t) for t in th], w
    if name == "Trapezoidal":
        h = mp.mpf(2) / (n - 1)
        w = [h] * n
        w[0] = w[-1] = h / 2
        return [-1 + i * h for i in range(n)], w
    if name == "Simpson":
        h = mp.mpf(2) / (n - 1)
        w = [h / 3 * (4 if i % 2 else 2) for i in range(n)]
        w[0] = w[-1] = h / 3
        return [-1 + i * h for i in range(n)], w
    if name == "MidPoint":
        return [-1 + mp.mpf(2 * i + 1) / n for i in range(n)], [mp.mpf(2) / n] * n
    if name == "UniformInteger":
        return [mp.mpf(i) for i in range(n)], [mp.mpf(1)] * n
    if name == "RectangleRuleSineEndPoints":
        xs = [mp.mpf(i) / (n + 1) for i in range(1, n + 1)]
        ws = []
        for x in xs:
            s = mp.fsum(mp.sin(m * pi * x) * (1 - mp.cos(m * pi)) / (m * pi) for m in range(1, n + 1))
            ws.append(2 * (mp.mpf(2) / (n + 1)) * s)
        return [2 * x - 1 for x in xs], ws
    if name == "ClenshawCurtis":
        # w_i = c_i/(n-1) (1 - sum_{j=1}^{floor((n-1)/2)} b_j/(4j^2-1) cos(2 j theta_i)), N = n-1 intervals
        N = n - 1
        th = [(N - i) * pi / N for i in range(n)]
        ws = []
        for i, t in enumerate(th):
            s = mp.mpf(0)
            for j in range(1, N // 2 + 1):
                b = 1 if 2 * j == N else 2
                s += mp.mpf(b) / (4 * j * j - 1) * mp.cos(2 * j * t)
            c = 1 if i in (0, N) else 2
            ws.append(mp.mpf(c) / N * (1 - s))
        return [mp.cos(t) for t in th], ws
    if name == "FejerFirst":
        th = [(2 * (n - 1 - i) + 1) * pi / (2 * n) for i in range(n)]
        ws = [mp.mpf(2) / n * (1 - 2 * mp.fsum(mp.cos(2 * j * t) / (4 * j * j - 1) for j in range(1, n // 2 + 1))) for t in th]
        return [mp.cos(t) for t in th], ws
    if name == "FejerSecond":
        th = [(n - i) * pi / (n + 1) for i in range(n)]
        ws = [4 * mp.sin(t) / (n + 1) * mp.fsum(mp.sin((2 * j - 1) * t) / (2 * j - 1) for j in range(1, (n + 1) // 2 + 1)) for t in th]
        return [mp.cos(t) for t in th], ws
    if name in ("TanhSinh", "ExpSinh", "LogExpSinh", "ExpExp", "SingleTanh", "SingleExp", "SingleArcSinhExp"):
        step = mp.mpf(kw.get("delta", kw.get("h")))
        f = node_map(name, kw)
        m = (n - 1) // 2
        ts = [k * step for k in range(-m, m + 1)]
        return [f(t) for t in ts], [step * mp.diff(f, t) for t in ts]
    return None


# ------------------------------------------------------------------------------ one case
def _tol(c, scale):
    return c * EPS * scale + 1e-300


def _structure(res, tag, case, g, n, name):
    pts = np.asarray(g.points, dtype=float)
    w = np.asarray(g.weights, dtype=float)
    res.count()
    if pts.shape != (n,) or w.shape != (n,) or g.size != n:
        res.violation(f"{tag}:wrong-number-of-nodes", f"{tag} n={n}: points {pts.shape}, weights {w.shape}", case)
        return False
    if not (np.all(np.isfinite(pts)) and np.all(np.isfinite(w))):
        res.violation(f"{tag}:non-finite", f"{tag} n={n}: non-finite nodes or weights", case)
        return False
    if n > 1 and not np.all(np.diff(pts) > 0):
        res.violation(f"{tag}:nodes-not-ascending", f"{tag} n={n}: nodes are not strictly ascending", case)
        return False
    dom = g.domain
    base = name.split("(")[0]
    want_dom = (0, np.inf) if base in HALF_LINE else (-1, 1)
    if dom is None or tuple(float(v) for v in dom) != tuple(float(v) for v in want_dom):
        res.violation(f"{tag}:declared-domain", f"{tag} n={n}: declares the domain {dom}, its definition lives on {want_dom}", case)
        return False
    if dom is None or pts.min() < dom[0] - 1e-12 or pts.max() > dom[1] + 1e-12:
        res.violation(f"{tag}:node-outside-domain", f"{tag} n={n}: nodes outside declared domain {dom}", case)
        return False
    return True


def _compare_def(res, tag, case, g, ref, n, c=1e4):
    """nodes/weights vs. the closed-form definition."""
    xs, ws = ref
    fx = np.array([float(x) for x in xs])
    fw = np.array([float(w) for w in ws])
    pts = np.asarray(g.points, dtype=float)
    w = np.asarray(g.weights, dtype=float)
    wscale = np.max(np.abs(fw)) + 1.0
    for i in range(n):
        res.count(2)
        res.nontrivial()
        if _gt(abs(pts[i] - fx[i]), _tol(c, 1 + abs(fx[i]))):
            res.violation(f"{tag}:node-differs-from-definition",
                          f"{tag} n={n}: node {i} = {pts[i]!r}, definition gives {fx[i]!r}", dict(case, node=i))
            return
        if _gt(abs(w[i] - fw[i]), _tol(c, wscale)):
            res.violation(f"{tag}:weight-differs-from-definition",
                          f"{tag} n={n}: weight {i} = {w[i]!r}, definition gives {fw[i]!r} "
                          f"(max |dw| = {np.max(np.abs(w - fw)):.3e})", dict(case, node=i))
            return
        # (weights more than 25 orders of magnitude below the largest are computed from cancelling exponentials and
        # carry relative errors up to 3e-9 on the unchanged tree -- rounding by the stated standard; they are left to
        # the absolute test above)
        if tag.split("(")[0] in WIDE and abs(fw[i]) > 1e-25 * (wscale - 1) and _gt(abs(w[i] - fw[i]), 1e-10 * abs(fw[i])):
            res.violation(f"{tag}:weight-differs-from-definition",
                          f"{tag} n={n}: weight {i} = {w[i]!r}, definition gives {fw[i]!r} (relative deviation "
                          f"{abs(w[i] - fw[i]) / abs(fw[i]):.3e}; the largest weight is {wscale - 1:.3e})", dict(case, node=i))
            return
        res.maximum(f"def_err:{tag.split('(')[0]}", abs(w[i] - fw[i]) / wscale)


def _exactness(res, tag, case, g, degree, moment, weightfun=None, c=1e4):
    pts = np.asarray(g.points, dtype=float)
    w = np.asarray(g.weights, dtype=float)
    wf = np.ones_like(pts) if weightfun is None else weightfun(pts)
    for k in range(degree + 1):
        res.count()
        vals = wf * pts**k
        ref = moment(k)
        # natural scale sum |w f|, with the degree-0 scale added: a node that should be exactly 0
        # (or +-1) is itself only accurate to rounding
        scale = float(np.sum(np.abs(w * vals)) + np.sum(np.abs(w * wf)))
        if not np.isfinite(scale) or not np.isfinite(ref):
            res.inadm()
            continue
        res.nontrivial()
        got = float(np.sum(w * vals))
        if _gt(abs(got - ref), _tol(c, scale + abs(ref))):
            res.violation(f"{tag}:not-exact:first-failing-degree=n{k - len(pts):+d}",
                          f"{tag} n={len(pts)}: x^{k} integrates to {got!r}, exact {ref!r} "
                          f"(nominal degree {degree})", dict(case, degree=k), error=abs(got - ref))
            return k
        res.maximum(f"exact_err:{tag.split('(')[0]}", abs(got - ref) / (scale + abs(ref)))
    return None


def _case(arg):
    name, n, kw, seed = arg
    kws = ",".join(f"{k}={v}" for k, v in sorted(kw.items()))
    tag = f"{name}({kws})" if kws else name
    res = WorkerResult(section=name)
    case = {"class": name, "n": n, "kwargs": kw}
    mp.mp.dps = 30
    # ----- admissibility of n
    min_n = 1 if name in ("GaussChebyshevType2", "ExpSinh", "LogExpSinh", "ExpExp", "SingleTanh", "SingleExp", "SingleArcSinhExp") else 2
    must_reject = n < min_n or (name in ODD_ONLY and n % 2 == 0)
    if name in ("TrefethenGC2",) or kw.get("quadrature") == "GaussChebyshevType2":
        must_reject = n < 1
    res.count()
    try:
        g = build(name, n, kw)
    except ValueError as exc:
        if must_reject:
            res.nontrivial()
            return res.as_dict()
        ref = closed_form(name, n, kw)
        if ref is not None and not _representable(ref):
            res.inadm()
            return res.as_dict()
        res.violation(f"{tag}:rejected-admissible-n", f"{tag} n={n} raised ValueError: {exc}", case)
        return res.as_dict()
    except Exception as exc:
        if must_reject:
            res.violation(f"{tag}:inadmissible-n:wrong-exception:{type(exc).__name__}",
                          f"{tag} n={n} (not admissible) raised {type(exc).__name__} instead of ValueError: {exc}", case)
        else:
            res.violation(f"{tag}:raised:{type(exc).__name__}", f"{tag} n={n} raised {type(exc).__name__}: {exc}", case)
        return res.as_dict()
    if must_reject:
        # building a well-formed grid instead of rejecting is acceptable (DESIGN 3.0)
        if not _structure(res, tag, case, g, max(n, 0) if n > 0 else g.size, name):
            return res.as_dict()
        res.nontrivial()
        return res.as_dict()
    ref = closed_form(name, n, kw)
    if ref is not None and not _representable(ref):
        # the defining node map rounds to coinciding doubles for this parameter combination (e.g. tanh-sinh nodes that are
        # 1.0 to machine precision): strict ordering and node-by-node comparison are not decidable, but the grid must
        # still have n finite nodes and weights inside its domain, in non-descending order (seeded change C01-J returned
        # nan there)
        pts, w = np.asarray(g.points, dtype=float), np.asarray(g.weights, dtype=float)
        res.count()
        fx_ok = np.array([np.isfinite(float(v)) for v in ref[0]]) & np.array([np.isfinite(float(v)) for v in ref[1]])
        if pts.shape != (n,) or w.shape != (n,):
            res.violation(f"{tag}:wrong-number-of-nodes", f"{tag} n={n}: points {pts.shape}, weights {w.shape}", case)
        elif np.all(fx_ok) and not (np.all(np.isfinite(pts)) and np.all(np.isfinite(w))):
            res.violation(f"{tag}:non-finite", f"{tag} n={n}: {int(np.sum(~np.isfinite(pts)))} non-finite nodes, "
                          f"{int(np.sum(~np.isfinite(w)))} non-finite weights where the definition is finite", case)
        elif np.all(np.isfinite(pts)) and (np.any(np.diff(pts) < 0) or pts.min() < g.domain[0] - 1e-12 or pts.max() > g.domain[1] + 1e-12):
            res.violation(f"{tag}:nodes-not-ascending", f"{tag} n={n}: nodes descend or leave the domain", case)
        res.inadm()
        res.note("inadmissible for node-by-node comparison: defining node map rounds to equal/non-finite doubles: " + tag.split("(")[0])
        return res.as_dict()
    if not _structure(res, tag, case, g, n, name):
        return res.as_dict()
    # ----- closed-form definitions
    fejer2_known = False
    if name == "FejerSecond":
        # signature of the recorded defect: the sine series stops one term early, i.e. the weights
        # equal the definition with the upper summation limit floor((n+1)/2) - 1
        th = [(n - i) * mp.pi / (n + 1) for i in range(n)]
        trunc = [4 * mp.sin(t) / (n + 1) * mp.fsum(mp.sin((2 * j - 1) * t) / (2 * j - 1) for j in range(1, (n + 1) // 2)) for t in th]
        fw = np.array([float(v) for v in trunc])
        fd = np.array([float(v) for v in ref[1]])
        w = np.asarray(g.weights, dtype=float)
        if np.max(np.abs(w - fw)) <= 1e4 * EPS and np.max(np.abs(w - fd)) > 1e4 * EPS:
            fejer2_known = True
            res.count()
            res.violation("FejerSecond:weights:series-truncated-by-one",
                          f"FejerSecond n={n}: weights equal the definition with the sine series stopped one term early "
                          f"(max deviation from the true weights {np.max(np.abs(w - fd)):.3e})", case)
    if ref is not None and fejer2_known:
        # the nodes are still those of the definition (only the weights carry the recorded deviation)
        _compare_def(res, tag, case, g, (ref[0], [mp.mpf(float(v)) for v in g.weights]), n)
    if ref is not None and not fejer2_known:
        _compare_def(res, tag, case, g, ref, n)
    # ----- Trefethen maps: g(x_i), g'(x_i) w_i on the base rule
    if name.startswith("Trefethen"):
        base_name = {"TrefethenCC": "ClenshawCurtis", "TrefethenGC2": "GaussChebyshevType2",
                     "TrefethenStripCC": "ClenshawCurtis", "TrefethenStripGC2": "GaussChebyshevType2"}.get(name) or kw["quadrature"]
        base = build(base_name, n, {})
        gmap = g_poly(kw["d"]) if "d" in kw else g_strip(kw["rho"])
        xs, ws = [], []
        for x, w in zip(base.points, base.weights):
            xm = mp.mpf(float(x))
            if "rho" in kw and abs(float(x)) > 1 - 1e-9:
                # end point of the strip map: g'(s) = G'(u)/cos(u) with s = sin(u) is 0/0 there;
                # by l'Hopital the limit is -G''(u)/sin(u) at u = +-pi/2
                u0 = mp.pi / 2 * (1 if x > 0 else -1)
                d1 = -mp.diff(lambda u: gmap(mp.sin(u)), u0, 2) / mp.sin(u0)
                xs.append(mp.sign(xm) * 1)
            else:
                d1 = mp.diff(gmap, xm)
                xs.append(gmap(xm))
            ws.append(d1 * mp.mpf(float(w)))
        _compare_def(res, tag, case, g, (xs, ws), n, c=1e6 if "rho" in kw else 1e4)
    # ----- polynomial exactness
    if name == "GaussLegendre":
        _exactness(res, tag, case, g, 2 * n - 1, moment_plain, c=1e5)
    elif name in ("ClenshawCurtis", "FejerFirst") or (name == "FejerSecond" and not fejer2_known):
        _exactness(res, tag, case, g, n - 1, moment_plain)
    elif name == "Simpson":
        _exactness(res, tag, case, g, 3, moment_plain)
    elif name in ("Trapezoidal", "MidPoint"):
        _exactness(res, tag, case, g, 1, moment_plain)
    elif name == "GaussChebyshev":
        with np.errstate(all="ignore"):
            _exactness(res, tag, case, g, 2 * n - 1, moment_cheb1, lambda x: 1 / np.sqrt(1 - x * x), c=1e5)
    elif name == "GaussChebyshevType2":
        _exactness(res, tag, case, g, 2 * n - 1, moment_cheb2, lambda x: np.sqrt(1 - x * x), c=1e5)
    elif name == "GaussChebyshevLobatto":
        with np.errstate(all="ignore"):
            # interior nodes only: the end nodes carry zero re-weighted weight
            pass
    elif name == "GaussLaguerre":
        a = kw["alpha"]
        with np.errstate(all="ignore"):
            _exactness(res, tag, case, g, 2 * n - 1, lambda k: float(mp.gamma(a + k + 1)),
                       lambda x: x**a * np.exp(-x), c=1e6)
    if n in (2, 7, 16):
        res.sample({"class": tag, "n": n, "nodes_head": [float(v) for v in g.points[:3]]})
    return res.as_dict()


def _representable(ref):
    xs, ws = ref
    fx = np.array([float(x) for x in xs])
    fw = np.array([float(w) for w in ws])
    # nodes closer than a few ulp are not reliably distinct in float64 either
    gap = 8 * EPS * np.maximum(np.abs(fx[:-1]), np.abs(fx[1:])) if len(fx) > 1 else 0
    return bool(np.all(np.isfinite(fx)) and np.all(np.isfinite(fw)) and (len(fx) < 2 or np.all(np.diff(fx) > gap)))


def sizes(name, thorough):
    top = 128 if thorough else 41
    if name == "GaussLegendre":
        top = min(top, 100)
    if name == "GaussLaguerre":
        top = min(top, 100 if thorough else 40)
    if name == "RectangleRuleSineEndPoints" and thorough:
        top = 96
    out = [-1, 0] + list(range(1, top + 1))
    # rules whose weights are a cosine / sine SERIES of about n/2 terms (and the cheap closed forms): sizes around the block
    # lengths an implementation might sum the series in (64, 128, 256, ...), beyond the contiguous range (added after seeded
    # change C01-K: a blocked summation that drops the last partial block is bit-identical up to n = 129)
    if name in ("ClenshawCurtis", "FejerFirst", "FejerSecond", "GaussChebyshev", "GaussChebyshevType2", "GaussChebyshevLobatto", "MidPoint", "Trapezoidal"):
        out += [129, 130, 131, 193, 257, 258] + ([132, 160, 191, 192, 255, 256, 259, 321, 385, 513, 600] if thorough else [])
    return out


def run(ctx):
    jobs = []
    for name, kws in catalogue():
        for kw in kws:
            for n in sizes(name, ctx.thorough):
                if not ctx.thorough and ("quadrature" in kw) and n > 24:
                    continue  # quick: the General wrappers share all code with the CC/GC2 variants
                jobs.append((name, n, kw, ctx.seed))
    for res in lattice.pmap(_case, jobs, ctx.workers, chunksize=8):
        if len(ctx.samples) > 10:
            res["samples"] = []
        ctx.merge(res)
    ctx.cov["cases"] = len(jobs)
    ctx.cov["n_range"] = ("1..128 + 129..600 (selected) for series rules" if ctx.thorough else "1..41 + 129,130,131,193,257,258 for series rules")
    ctx.exhaustive = True


def replay(ctx, case):
    ctx.merge(_case((case["class"], case["n"], case["kwargs"], ctx.seed)))
