"""C12 -- degree/size requests resolve to the smallest supported angular grid not below.

Space (complete): 4 methods x every integer degree 0..max and size 0..max through
``AngularGrid._get_degree_and_size``; the public constructor for every table entry and its
neighbours (by degree and by size); rejection above the maximum / below zero; the sequence
converter on every singleton of the boundary alphabet and every sequence of length <= 3 over a
reduced boundary alphabet (list, tuple-free ndarray, repeats, unsorted); ``AtomGrid`` and
``AtomGrid.from_pruned`` degree sequences.

Oracle: the method's table read as plain data and sorted by the check itself, cross-checked
against the directory listing of ``<method>_<degree>_<size>.npz`` (every entry must have a file;
orphan files are noted); min{supported >= request}; ``np.load`` of the file for the point count.
"""

from __future__ import annotations

import bisect
import itertools
import os
import re
import warnings

import numpy as np

from vf import lattice
from vf.cli import WorkerResult

LEVEL = "exploration"
RULE = (
    "complete enumeration of integer requests per method (degree 0..max, size 0..max, "
    "max+1, -1), constructor at every table entry and entry+-1, converter sequences of "
    "length<=3 over a boundary alphabet; a case is non-trivial when the request is admissible "
    "and the oracle (directory listing) yields a definite (degree,size) pair; distinct by "
    "(route, method, request)"
)
ASSUMPTIONS = [
    "the shipped data directory listing defines the supported grids",
    "np.load reads the data files faithfully",
]

METHODS = {
    "lebedev": "lebedev",
    "spherical": "spherical_design",
    "maxdet": "maxdet",
    "ahrens_beylkin": "ahrens_beylkin",
}


def data_dir(method):
    import grid

    return os.path.join(os.path.dirname(grid.__file__), "data", METHODS[method])


TABLES = {
    "lebedev": ("LEBEDEV_NPOINTS", "LEBEDEV_DEGREES"),
    "spherical": ("SPHERICAL_NPOINTS", "SPHERICAL_DEGREES"),
    "maxdet": ("MAX_DET_NPOINTS", "MAX_DET_DEGREES"),
    "ahrens_beylkin": ("AHRENS_BEYLKIN_NPOINTS", "AHRENS_BEYLKIN_DEGREES"),
}


def listing(method):
    """The method's table of supported (degree, size) pairs, sorted by the check itself.

    "Supported" is what the method's table advertises (the property's wording); the table is read
    as plain data (the size->degree dictionary), never through the lookup code.  Every entry must
    be backed by a data file -- checked in ``check_tables`` against the directory listing.
    """
    import grid.angular as ang

    npoints = getattr(ang, TABLES[method][0])
    return sorted((int(d), int(s)) for s, d in npoints.items())


def disk_listing(method):
    """Sorted list of (degree, size) parsed from the data directory."""
    pairs = []
    for name in os.listdir(data_dir(method)):
        mt = re.fullmatch(rf"{method}_(\d+)_(\d+)\.npz", name)
        if mt:
            pairs.append((int(mt.group(1)), int(mt.group(2))))
    pairs.sort()
    return pairs


def oracle_by_degree(pairs, d):
    degs = [p[0] for p in pairs]
    i = bisect.bisect_left(degs, d)
    return pairs[i] if 0 <= d and i < len(pairs) else None


def oracle_by_size(pairs, s):
    by = sorted(pairs, key=lambda p: p[1])
    sizes = [p[1] for p in by]
    i = bisect.bisect_left(sizes, s)
    return by[i] if 0 <= s and i < len(by) else None


# ------------------------------------------------------------------------------- workers
def _lookup_shard(arg):
    method, kind, lo, hi = arg
    from grid.angular import AngularGrid

    res = WorkerResult(section=f"lookup:{kind}")
    pairs = listing(method)
    for q in range(lo, hi):
        res.count()
        exp = oracle_by_degree(pairs, q) if kind == "degree" else oracle_by_size(pairs, q)
        try:
            with warnings.catch_warnings():
                warnings.simplefilter("ignore")
                got = AngularGrid._get_degree_and_size(
                    degree=q if kind == "degree" else None,
                    size=q if kind == "size" else None,
                    method=method,
                )
            got = (int(got[0]), int(got[1]))
        except ValueError as exc:
            got = ("ValueError", str(exc)[:60])
        except Exception as exc:  # any other exception type is a violation as well
            got = (type(exc).__name__, str(exc)[:60])
        case = {"route": "lookup", "method": method, "kind": kind, "request": q}
        if exp is None:
            if got[0] != "ValueError":
                res.violation(
                    f"lookup:{method}:{kind}:out-of-range-not-rejected",
                    f"{kind}={q} outside 0..max is not rejected with ValueError: {got}",
                    case,
                    got=got,
                )
            continue
        res.nontrivial()
        if got != exp:
            sig = "coarser" if isinstance(got[0], int) and got[kind == "size"] < q else "wrong"
            res.violation(
                f"lookup:{method}:{kind}:{sig}",
                f"{method} {kind}={q}: got {got}, smallest supported not below is {exp}",
                case,
                got=got,
                expected=exp,
            )
    res.sample({"route": "lookup", "method": method, "kind": kind, "request": lo})
    return res.as_dict()


def _ctor_case(method, kind, q, pairs, res, sizes_cache):
    from grid.angular import AngularGrid

    res.count()
    exp = oracle_by_degree(pairs, q) if kind == "degree" else oracle_by_size(pairs, q)
    case = {"route": "ctor", "method": method, "kind": kind, "request": q}
    try:
        with warnings.catch_warnings():
            warnings.simplefilter("ignore")
            # every third request is passed as a NumPy integer (np.int64 / np.int32), the rest as int
            qq = q if (q % 3 or q < 0) else (np.int64(q) if q % 2 else np.int32(q))
            if kind == "degree":
                g = AngularGrid(degree=qq, method=method, cache=False)
            else:
                g = AngularGrid(size=qq, method=method, cache=False)
        got = (int(g.degree), int(g.size), int(len(g.points)), int(len(g.weights)))
    except ValueError as exc:
        got = ("ValueError", str(exc)[:60])
    except Exception as exc:
        got = (type(exc).__name__, str(exc)[:60])
    if exp is None:
        if got[0] != "ValueError":
            res.violation(
                f"ctor:{method}:{kind}:out-of-range-not-rejected",
                f"AngularGrid({kind}={q}, method={method}) not rejected: {got}",
                case,
                got=got,
            )
        return
    res.nontrivial()
    if exp not in sizes_cache:
        path = os.path.join(data_dir(method), f"{method}_{exp[0]}_{exp[1]}.npz")
        with np.load(path) as data:
            sizes_cache[exp] = int(len(data["points"]))
    npts = sizes_cache[exp]
    want = (exp[0], exp[1], npts, npts)
    if got != want or npts != exp[1]:
        res.violation(
            f"ctor:{method}:{kind}:mismatch",
            f"AngularGrid({kind}={q}, {method}): (degree,size,len(points),len(weights))={got}, "
            f"expected {want} (data file holds {npts} points)",
            case,
            got=got,
            expected=want,
        )


def _ctor_shard(arg):
    method, kind, reqs = arg
    res = WorkerResult(section=f"ctor:{kind}")
    pairs = listing(method)
    cache = {}
    for q in reqs:
        _ctor_case(method, kind, q, pairs, res, cache)
    if reqs:
        res.sample({"route": "ctor", "method": method, "kind": kind, "request": reqs[0]})
    return res.as_dict()


def _conv_expected(pairs, seq):
    out = []
    for s in seq:
        e = oracle_by_size(pairs, s)
        if e is None:
            return None
        out.append(e[0])
    return out


def _conv_case(method, seq, form, pairs, res):
    from grid.angular import AngularGrid

    res.count()
    exp = _conv_expected(pairs, seq)
    arg = list(seq) if form == "list" else np.array(seq, dtype=int)
    case = {"route": "convert", "method": method, "sizes": list(seq), "form": form}
    try:
        with warnings.catch_warnings():
            warnings.simplefilter("ignore")
            got = AngularGrid.convert_angular_sizes_to_degrees(arg, method)
        got = [int(v) for v in got]
    except ValueError as exc:
        got = ("ValueError", str(exc)[:60])
    except Exception as exc:
        got = (type(exc).__name__, str(exc)[:60])
    if exp is None:
        if not (isinstance(got, tuple) and got[0] == "ValueError"):
            res.violation(
                f"convert:{method}:out-of-range-not-rejected",
                f"convert_angular_sizes_to_degrees({list(seq)}) not rejected: {got}",
                case,
                got=got,
            )
        return
    res.nontrivial()
    if got != exp:
        res.violation(
            f"convert:{method}:{form}:mismatch",
            f"convert_angular_sizes_to_degrees({list(seq)}, {method}) = {got}, expected {exp}",
            case,
            got=got,
            expected=exp,
        )
    # the caller's sequence must be untouched (cheap, and C20 relies on it too)
    if list(arg) != list(seq):
        res.violation(
            f"convert:{method}:{form}:input-modified",
            "convert_angular_sizes_to_degrees modified its input",
            case,
        )


def _conv_shard(arg):
    method, seqs = arg
    res = WorkerResult(section="convert")
    pairs = listing(method)
    for seq in seqs:
        for form in ("ndarray", "list"):
            _conv_case(method, seq, form, pairs, res)
    if seqs:
        res.sample({"route": "convert", "method": method, "sizes": list(seqs[-1])})
    return res.as_dict()


def _rgrid(n):
    from grid.onedgrid import GaussLegendre
    from grid.rtransform import BeckeRTransform

    return BeckeRTransform(0.0, 1.5).transform_1d_grid(GaussLegendre(n))


def _atom_case(method, kind, seq, pairs, res):
    """AtomGrid(degrees=seq) / AtomGrid(sizes=seq): every shell is the smallest grid not below."""
    from grid.atomgrid import AtomGrid

    res.count()
    case = {"route": "atom", "method": method, "kind": kind, "request": list(seq)}
    exp = [
        (oracle_by_degree if kind == "degrees" else oracle_by_size)(pairs, q) for q in seq
    ]
    try:
        with warnings.catch_warnings():
            warnings.simplefilter("ignore")
            rg = _rgrid(len(seq))
            if kind == "degrees":
                g = AtomGrid(rg, degrees=list(seq), method=method)
            else:
                g = AtomGrid(rg, sizes=list(seq), method=method)
        got_deg = [int(d) for d in g.degrees]
        got_sz = [int(b - a) for a, b in zip(g.indices[:-1], g.indices[1:])]
    except Exception as exc:
        res.violation(
            f"atom:{method}:{kind}:raised",
            f"AtomGrid({kind}={list(seq)}, {method}) raised {type(exc).__name__}: {exc}",
            case,
        )
        return
    res.nontrivial()
    if got_deg != [e[0] for e in exp] or got_sz != [e[1] for e in exp]:
        coarse = any(
            (gd < q if kind == "degrees" else gs < q) for gd, gs, q in zip(got_deg, got_sz, seq)
        )
        res.violation(
            f"atom:{method}:{kind}:{'coarser' if coarse else 'mismatch'}",
            f"AtomGrid({kind}={list(seq)}, {method}): degrees {got_deg} shell sizes {got_sz}, "
            f"expected {exp}",
            case,
            got=[got_deg, got_sz],
            expected=exp,
        )


def _pruned_case(method, kind, seq, pairs, res):
    """from_pruned with 3 sectors placed so that each of 4 radial nodes sees a known sector."""
    from grid.atomgrid import AtomGrid

    res.count()
    case = {"route": "pruned", "method": method, "kind": kind, "request": list(seq)}
    rg = _rgrid(4)
    r = rg.points
    # sector borders between node 0|1 and 2|3 => sectors: [0], [1,2], [3]
    r_sectors = [0.5 * (r[0] + r[1]), 0.5 * (r[2] + r[3])]
    exp_sector = [
        (oracle_by_degree if kind == "d_sectors" else oracle_by_size)(pairs, q) for q in seq
    ]
    exp = [exp_sector[0], exp_sector[1], exp_sector[1], exp_sector[2]]
    try:
        with warnings.catch_warnings():
            warnings.simplefilter("ignore")
            if kind == "d_sectors":
                g = AtomGrid.from_pruned(rg, 1.0, r_sectors=r_sectors, d_sectors=list(seq), method=method)
            else:
                g = AtomGrid.from_pruned(
                    rg, 1.0, r_sectors=r_sectors, d_sectors=None, s_sectors=list(seq), method=method
                )
        got_deg = [int(d) for d in g.degrees]
        got_sz = [int(b - a) for a, b in zip(g.indices[:-1], g.indices[1:])]
    except Exception as exc:
        res.violation(
            f"pruned:{method}:{kind}:raised",
            f"from_pruned({kind}={list(seq)}, {method}) raised {type(exc).__name__}: {exc}",
            case,
        )
        return
    res.nontrivial()
    if got_deg != [e[0] for e in exp] or got_sz != [e[1] for e in exp]:
        res.violation(
            f"pruned:{method}:{kind}:mismatch",
            f"from_pruned({kind}={list(seq)}, {method}): degrees {got_deg} sizes {got_sz}, expected {exp}",
            case,
            got=[got_deg, got_sz],
            expected=exp,
        )


def _atom_shard(arg):
    method, route, kind, seqs = arg
    res = WorkerResult(section=route)
    pairs = listing(method)
    for seq in seqs:
        if route == "atom":
            _atom_case(method, kind, seq, pairs, res)
        else:
            _pruned_case(method, kind, seq, pairs, res)
    if seqs:
        res.sample({"route": route, "method": method, "kind": kind, "request": list(seqs[-1])})
    return res.as_dict()


def _single_broadcast_shard(method):
    """ONE degree or size for a radial grid of several shells (documented: it is used for every shell), as a list, an int64 /
    int32 array or a tuple: every shell is the smallest supported grid not below THAT request (added after seeded change
    C12-L: `sizes * rgrid.size` replicates a list but multiplies a one-element array)."""
    from grid.atomgrid import AtomGrid

    res = WorkerResult(section="single-broadcast")
    pairs = listing(method)
    for kind, sel in (("degrees", 0), ("sizes", 1)):
        vals = sorted(pp[sel] for pp in pairs)
        alpha = sorted({0, 1, vals[0], vals[0] + 1, vals[1], vals[2] - 1, vals[3], vals[len(vals) // 2], vals[len(vals) // 2] + 1, vals[-2] + 1, vals[-1]})
        for q in alpha:
            exp = (oracle_by_degree if kind == "degrees" else oracle_by_size)(pairs, q)
            for nshell in (2, 5):
                rg = _rgrid(nshell)
                for form, arg in (("list", [q]), ("int64", np.array([q], dtype=np.int64)), ("int32", np.array([q], dtype=np.int32)), ("tuple", (q,))):
                    res.count()
                    case = {"route": "single-broadcast", "method": method, "kind": kind, "request": q, "form": form, "shells": nshell}
                    try:
                        with warnings.catch_warnings():
                            warnings.simplefilter("ignore")
                            g = AtomGrid(rg, degrees=arg, method=method) if kind == "degrees" else AtomGrid(rg, sizes=arg, method=method)
                        got_deg = [int(d) for d in g.degrees]
                        got_sz = [int(b - a) for a, b in zip(g.indices[:-1], g.indices[1:])]
                    except Exception as exc:
                        if form == "tuple":
                            res.inadm()      # sequences other than list / ndarray are not among the documented forms
                            continue
                        res.violation(f"single-broadcast:{method}:{kind}:raised", f"AtomGrid({kind}={arg!r}, {method}) on {nshell} shells raised "
                                      f"{type(exc).__name__}: {exc}", case)
                        continue
                    res.nontrivial()
                    if got_deg != [exp[0]] * nshell or got_sz != [exp[1]] * nshell:
                        res.violation(f"single-broadcast:{method}:{kind}:mismatch", f"AtomGrid({kind}={arg!r} as {form}, {method}) on {nshell} shells: degrees "
                                      f"{got_deg}, shell sizes {got_sz}; the request resolves to {exp} for every shell", case)
    res.sample({"route": "single-broadcast", "method": method})
    return res.as_dict()


def _above_max_shard(method):
    """Requests above the maximum through the atomic constructors (added after seeded change C12-B of wave 12, which
    clamped the sector degrees of from_pruned to the largest supported degree, was missed): AtomGrid(degrees=...),
    AtomGrid(sizes=...), from_pruned(d_sectors=...) and from_pruned(s_sectors=...) reject any sequence with one element
    above the largest supported value, wherever it stands and whatever the other elements are."""
    from grid.atomgrid import AtomGrid

    res = WorkerResult(section="above-max")
    pairs = listing(method)
    rg3, rg4 = _rgrid(3), _rgrid(4)
    r = rg4.points
    r_sectors = [0.5 * (r[0] + r[1]), 0.5 * (r[2] + r[3])]
    for kind, sel in (("degrees", 0), ("sizes", 1)):
        vals = sorted(pp[sel] for pp in pairs)
        top = vals[-1]
        for over in (top + 1, top + 2, top + 60, 10 * top):
            for others in ((vals[0], vals[1]), (top, top), (0, top)):
                for pos in range(3):
                    seq = list(others)
                    seq.insert(pos, over)
                    for form in ("list", "array"):
                        arg = list(seq) if form == "list" else np.array(seq)
                        calls = {
                            f"AtomGrid({kind})": (lambda: AtomGrid(rg3, degrees=arg, method=method)) if kind == "degrees"
                            else (lambda: AtomGrid(rg3, sizes=arg, method=method)),
                            f"from_pruned({'d' if kind == 'degrees' else 's'}_sectors)": (
                                lambda: AtomGrid.from_pruned(rg4, 1.0, r_sectors=r_sectors, d_sectors=arg, method=method)) if kind == "degrees"
                            else (lambda: AtomGrid.from_pruned(rg4, 1.0, r_sectors=r_sectors, d_sectors=None, s_sectors=arg, method=method)),
                        }
                        for cname, call in calls.items():
                            res.count()
                            case = {"route": "above-max", "method": method, "kind": kind, "request": seq, "form": form, "call": cname}
                            try:
                                with warnings.catch_warnings():
                                    warnings.simplefilter("ignore")
                                    g = call()
                                got = [int(d) for d in g.degrees]
                            except ValueError:
                                res.nontrivial()
                                continue
                            except Exception as exc:
                                res.violation(f"above-max:{method}:{kind}:raised:{type(exc).__name__}",
                                              f"{cname} with {seq} ({method}): {type(exc).__name__}: {exc} instead of ValueError", case)
                                continue
                            res.violation(f"above-max:{method}:{kind}:not-rejected",
                                          f"{cname} accepted {kind} {seq} although {over} > largest supported {top} ({method}); shells got degrees {got}", case)
    res.sample({"route": "above-max", "method": method})
    return res.as_dict()


# ------------------------------------------------------------------------------- tables
def check_tables(ctx):
    """The four pairs of dictionaries in angular.py must be mutually inverse, ascending and equal
    to the directory listing."""
    import grid.angular as ang

    for method, (n_np, n_dg) in TABLES.items():
        ctx.count(section="tables")
        pairs = listing(method)
        disk = disk_listing(method)
        npoints, degrees = getattr(ang, n_np), getattr(ang, n_dg)
        t1 = sorted((int(d), int(s)) for s, d in npoints.items())
        t2 = sorted((int(d), int(s)) for d, s in degrees.items())
        case = {"route": "tables", "method": method}
        if t1 != t2:
            ctx.violation(
                f"tables:{method}:not-mutually-inverse",
                f"{n_np} and {n_dg} are not inverse of each other: "
                f"{sorted(set(t1) ^ set(t2))[:6]}",
                case,
            )
        missing = sorted(set(t1 + t2) - set(disk))
        if missing:
            ctx.violation(
                f"tables:{method}:entry-without-data-file",
                f"table entries (degree,size) without a data file: {missing[:6]}",
                case,
            )
        orphans = sorted(set(disk) - set(t1) - set(t2))
        if orphans:
            ctx.note(f"{method}: data files not advertised by the table (unreachable): {orphans}")
        if list(npoints.keys()) != sorted(npoints.keys()) or list(degrees.keys()) != sorted(
            degrees.keys()
        ):
            ctx.violation(
                f"tables:{method}:not-ascending",
                f"{n_np}/{n_dg} keys are not ascending (bisect precondition)",
                case,
            )
        sz = [p[1] for p in pairs]
        if sz != sorted(sz) or len(set(sz)) != len(sz):
            ctx.violation(
                f"tables:{method}:size-not-monotone-in-degree",
                "sizes are not strictly increasing with degree",
                case,
            )
        ctx.nontrivial(("tables", method), section="tables")


# ------------------------------------------------------------------------------- driver
def boundary_alphabet(pairs, kind, full=True):
    vals = [p[0] if kind == "degree" else p[1] for p in pairs]
    vals = sorted(vals)
    use = vals if full else vals[:4] + vals[-1:]
    out = {0, 1}
    for v in use:
        out.update((v - 1, v, v + 1))
    out.add(vals[-1] + 1)
    out.add(-1)
    return sorted(out)


def run(ctx):
    ctx.exhaustive = True
    ctx.guarded("tables", check_tables, ctx)
    w = ctx.workers
    jobs = []
    for method in METHODS:
        pairs = listing(method)
        for kind, mx in (("degree", pairs[-1][0]), ("size", max(p[1] for p in pairs))):
            # -2..max+2 covers negatives and above-maximum rejections
            lo, hi = -2, mx + 3
            step = max(2000, (hi - lo) // (2 * w) + 1)
            for a in range(lo, hi, step):
                jobs.append((method, kind, a, min(hi, a + step)))
    for res in lattice.pmap(_lookup_shard, jobs, w):
        ctx.merge(res)

    # public constructor at every table entry and its neighbours
    jobs = []
    for method in METHODS:
        pairs = listing(method)
        for kind in ("degree", "size"):
            reqs = boundary_alphabet(pairs, kind, full=True)
            if not ctx.thorough and kind == "size" and method in ("spherical", "maxdet"):
                # quick: every 3rd table size (+-1); all of them in the thorough tier.  The
                # integer lookup above is complete in both tiers.
                keep = set(sorted(p[1] for p in pairs)[::3])
                reqs = [q for q in reqs if q in keep or q - 1 in keep or q + 1 in keep or q <= 1]
            for shard in lattice.chunks(reqs, 4):
                jobs.append((method, kind, shard))
    for res in lattice.pmap(_ctor_shard, jobs, w):
        ctx.merge(res)

    # converter: singletons over the full boundary alphabet, sequences <= 3 over the reduced one
    jobs = []
    for method in METHODS:
        pairs = listing(method)
        full = boundary_alphabet(pairs, "size", full=True)
        red = boundary_alphabet(pairs, "size", full=False)
        seqs = [(s,) for s in full]
        seqs += list(itertools.product(red, repeat=2))
        seqs += list(itertools.product(red if ctx.thorough else red[1:9], repeat=3))
        for shard in lattice.chunks(seqs, 4):
            jobs.append((method, shard))
    for res in lattice.pmap(_conv_shard, jobs, w):
        ctx.merge(res)

    # AtomGrid / from_pruned sequences (admissible requests only: 0..max)
    jobs = []
    for method in METHODS:
        pairs = listing(method)
        for kind, k2, sel in (("degrees", "d_sectors", 0), ("sizes", "s_sectors", 1)):
            vals = sorted(p[sel] for p in pairs)
            alpha = sorted({0, 1, vals[0], vals[0] + 1, vals[1], vals[1] + 1, vals[2] - 1, vals[3]})
            seqs = list(itertools.product(alpha, repeat=3))
            if not ctx.thorough:
                seqs = [s for s in seqs if len(set(s)) >= 2 or s[0] in (alpha[0], alpha[-1])][::2]
            for shard in lattice.chunks(seqs, 2):
                jobs.append((method, "atom", kind, shard))
                jobs.append((method, "pruned", k2, shard))
    for res in lattice.pmap(_atom_shard, jobs, w):
        ctx.merge(res)
    for res in lattice.pmap(_cross_method_shard, list(itertools.permutations(METHODS, 2)), w):
        ctx.merge(res)
    for res in lattice.pmap(_narrow_and_both_shard, list(METHODS), w):
        ctx.merge(res)
    for res in lattice.pmap(_above_max_shard, list(METHODS), w):
        ctx.merge(res)
    for res in lattice.pmap(_single_broadcast_shard, list(METHODS), w):
        ctx.merge(res)
    ctx.cov["methods"] = list(METHODS)
    ctx.cov["supported_grids"] = {m: len(listing(m)) for m in METHODS}


def _narrow_and_both_shard(arg):
    """(a) requests in narrow integer dtypes next to the dtype's maximum (np.int8, np.uint8, np.int16, np.uint16): the
    answer is that of the Python integer of the same value (seeded change C12-H incremented in the request's dtype and
    wrapped around); (b) the static lookup with degree AND size given: the documented rule is that the degree decides,
    and the answer is a pair of the table."""
    method = arg
    from grid.angular import AngularGrid

    res = WorkerResult(section="narrow-dtypes")
    pairs = listing(method)
    reqs = [(np.int8, v) for v in (100, 120, 126, 127)] + [(np.uint8, v) for v in (128, 200, 250, 254, 255)] \
        + [(np.int16, v) for v in (1000, 30000, 32766, 32767)] + [(np.uint16, v) for v in (40000, 65535)]
    with warnings.catch_warnings():
        warnings.simplefilter("ignore")
        for kind in ("degree", "size"):
            for dt, v in reqs:
                res.count()
                q = dt(v)
                exp = (oracle_by_degree if kind == "degree" else oracle_by_size)(pairs, int(v))
                case = {"route": "narrow", "method": method, "kind": kind, "dtype": dt.__name__, "request": int(v)}
                try:
                    got = AngularGrid._get_degree_and_size(degree=q if kind == "degree" else None, size=q if kind == "size" else None, method=method)
                    got = (int(got[0]), int(got[1]))
                except ValueError:
                    got = None
                except Exception as exc:
                    got = (type(exc).__name__,)
                res.nontrivial()
                if (exp is None) != (got is None) or (exp is not None and tuple(exp) != got):
                    res.violation(f"narrow:{method}:{kind}:{dt.__name__}:wrong", f"{method} {kind}={dt.__name__}({v}): got {got}, the rule gives "
                                  f"{exp} (None = rejected)", case)
        # converter with a uint8 / int16 array
        for dt, vals in ((np.uint8, [6, 110, 250, 110, 255]), (np.int16, [26, 3000, 32767, 1])):
            res.count()
            arr = np.array(vals, dtype=dt)
            exp = [oracle_by_size(pairs, int(v)) for v in vals]
            case = {"route": "narrow", "method": method, "kind": "convert", "dtype": dt.__name__, "request": [int(v) for v in vals]}
            try:
                got = [int(d) for d in AngularGrid.convert_angular_sizes_to_degrees(arr, method)]
            except ValueError:
                got = None
            res.nontrivial()
            want = None if any(e is None for e in exp) else [int(e[0]) for e in exp]
            if got != want:
                res.violation(f"narrow:{method}:convert:{dt.__name__}:wrong", f"convert_angular_sizes_to_degrees({dt.__name__}{vals}, {method}): "
                              f"{got}, the rule gives {want}", case)
        # (b) both arguments
        degs = [p[0] for p in pairs]
        for d in (0, degs[0], degs[0] + 1, degs[3], degs[len(degs) // 2] - 1, degs[-1]):
            for sz in (0, 1, pairs[2][1], pairs[5][1] + 1, 100, pairs[-1][1]):
                res.count()
                exp = oracle_by_degree(pairs, d)
                case = {"route": "narrow", "method": method, "kind": "both", "request": [int(d), int(sz)]}
                try:
                    got = AngularGrid._get_degree_and_size(degree=d, size=sz, method=method)
                    got = (int(got[0]), int(got[1]))
                except ValueError:
                    got = None
                res.nontrivial()
                if (exp is None) != (got is None) or (exp is not None and tuple(exp) != got):
                    res.violation(f"lookup:{method}:both-given:wrong", f"{method} degree={d} and size={sz}: got {got}; the degree decides: {exp}", case)
    return res.as_dict()


def _cross_method_shard(arg):
    """Two-step histories in ONE process: resolve the same requests for method m1, then for m2 (converter, static lookup,
    constructor, atomic grid by sizes).  The second answer must be m2's, whatever was asked of m1 before (added after
    seeded change C19-E: a memo of size -> degree that forgot the method)."""
    m1, m2 = arg
    from grid.angular import AngularGrid
    from grid.atomgrid import AtomGrid

    res = WorkerResult(section="cross-method")
    p1, p2 = listing(m1), listing(m2)
    sizes = sorted({p[1] for p in p1[:12]} | {p[1] for p in p2[:12]} | {p[1] + 1 for p in p2[:6]})
    top = min(max(p[1] for p in p1), max(p[1] for p in p2))
    sizes = [q for q in sizes if q <= top]
    degs = sorted({p[0] for p in p1[:8]} | {p[0] for p in p2[:8]})
    degs = [d for d in degs if d <= min(p1[-1][0], p2[-1][0])]
    case = {"route": "cross-method", "first": m1, "then": m2}
    with warnings.catch_warnings():
        warnings.simplefilter("ignore")
        for q in sizes:
            AngularGrid.convert_angular_sizes_to_degrees([q], m1)
            AngularGrid._get_degree_and_size(degree=None, size=q, method=m1)
        AtomGrid(_rgrid(len(sizes)), sizes=list(sizes), method=m1)
        AtomGrid(_rgrid(len(degs)), degrees=list(degs), method=m1)
        res.count(3 * len(sizes) + len(degs))
        got = [int(v) for v in AngularGrid.convert_angular_sizes_to_degrees(list(sizes), m2)]
        want = [oracle_by_size(p2, q)[0] for q in sizes]
        res.nontrivial()
        if got != want:
            res.violation(f"cross-method:convert:{m2}-after-{m1}", f"convert_angular_sizes_to_degrees({sizes}, {m2!r}) after the same sizes "
                          f"were converted for {m1!r}: {got}, expected {want}", case)
        g = AtomGrid(_rgrid(len(sizes)), sizes=list(sizes), method=m2)
        gs = [int(b - a) for a, b in zip(g.indices[:-1], g.indices[1:])]
        ws = [oracle_by_size(p2, q)[1] for q in sizes]
        if gs != ws or [int(d) for d in g.degrees] != want:
            res.violation(f"cross-method:atom-sizes:{m2}-after-{m1}", f"AtomGrid(sizes={sizes}, {m2!r}) after the same request for {m1!r}: "
                          f"shell sizes {gs}, expected {ws}", case)
        g = AtomGrid(_rgrid(len(degs)), degrees=list(degs), method=m2)
        wd = [oracle_by_degree(p2, d)[0] for d in degs]
        if [int(d) for d in g.degrees] != wd:
            res.violation(f"cross-method:atom-degrees:{m2}-after-{m1}", f"AtomGrid(degrees={degs}, {m2!r}) after {m1!r}: {list(map(int, g.degrees))}, "
                          f"expected {wd}", case)
        for q in sizes[:6]:
            a = AngularGrid(size=q, method=m2)
            if (int(a.degree), int(a.size)) != tuple(oracle_by_size(p2, q)):
                res.violation(f"cross-method:ctor:{m2}-after-{m1}", f"AngularGrid(size={q}, {m2!r}) after {m1!r}: ({a.degree}, {a.size})", case)
    return res.as_dict()


def replay(ctx, case):
    if case.get("route") == "narrow":
        return ctx.merge(_narrow_and_both_shard(case["method"]))
    if case.get("route") == "above-max":
        return ctx.merge(_above_max_shard(case["method"]))
    if case.get("route") == "single-broadcast":
        return ctx.merge(_single_broadcast_shard(case["method"]))
    if case.get("route") == "cross-method":
        return ctx.merge(_cross_method_shard((case["first"], case["then"])))
    res = WorkerResult()
    route = case["route"]
    method = case.get("method")
    pairs = listing(method)
    if route == "lookup":
        ctx.merge(_lookup_shard((method, case["kind"], case["request"], case["request"] + 1)))
        return
    if route == "ctor":
        _ctor_case(method, case["kind"], case["request"], pairs, res, {})
    elif route == "convert":
        _conv_case(method, tuple(case["sizes"]), case["form"], pairs, res)
    elif route == "atom":
        _atom_case(method, case["kind"], tuple(case["request"]), pairs, res)
    elif route == "pruned":
        _pruned_case(method, case["kind"], tuple(case["request"]), pairs, res)
    elif route == "tables":
        check_tables(ctx)
    ctx.merge(res.as_dict())
