"""C04 -- transforming a 1D grid is a faithful change of variables.

Engine E2: product  (1D rule, n) x transform x parameter alphabet.  Quick: every rule x every
n in {2,3,5,8,13} x every transform class with a reduced parameter alphabet (first two values
of every parameter); thorough: the complete product with the C03 parameter alphabets.

Oracle (vf/oracles/rtf.py, mpmath): new points = r(x_i); new weights = w_i |r'(x_i)|; new domain
= ordered image of the old domain (+inf <-> 1e16 exactly when trimming is on) and contains every
new node; non-negative weights stay non-negative and the integral of exp(-r) > 0 is positive,
also for decreasing maps; a rule whose domain is not inside the transform's domain is rejected
with ValueError; Gauss-Legendre mapped linearly to [a,b] integrates x^k, k <= 2n-1, exactly
(exact rational reference).
"""

from __future__ import annotations

import itertools
import warnings
from fractions import Fraction

import mpmath as mp
import numpy as np

from vf import lattice
from vf.cli import WorkerResult
from vf.oracles import rtf
from vf.props import c03


def _gt(a, b):
    """a > b that is also True when a is NaN (a silent NaN must never pass a tolerance test)."""
    return ~(np.asarray(a) <= np.asarray(b))


LEVEL = "exploration"
RULE = (
    "product (1D rule, n) x transform class x parameter alphabet; one evaluation = one node "
    "(point and weight) or one domain/exactness clause compared with the mpmath oracle; distinct "
    "non-trivial = distinct (rule, n, transform, parameters) whose oracle values are finite"
)
ASSUMPTIONS = [
    "mpmath evaluation of the docstring maps and mp.diff are exact for this purpose",
    "nodes where the map or its derivative is singular (x = +-1 for the half-infinite maps) are "
    "only required to carry the +-inf / 1e16 convention, not a weight",
]

RTOL = 5e-9
NS = (2, 3, 5, 8, 13)
PM1_RULES = (
    "GaussLegendre", "GaussChebyshev", "GaussChebyshevType2", "GaussChebyshevLobatto", "Trapezoidal",
    "RectangleRuleSineEndPoints", "TanhSinh", "Simpson", "MidPoint", "ClenshawCurtis", "FejerFirst",
    "FejerSecond", "TrefethenCC", "TrefethenGC2", "TrefethenStripCC", "TrefethenStripGC2", "SingleTanh",
)
HALF_RULES = ("UniformInteger", "GaussLaguerre", "ExpSinh", "LogExpSinh", "ExpExp", "SingleExp", "SingleArcSinhExp")
SUB_PM1 = ("sub:pm1-inner", "sub:pm1-right", "sub:pm1-left", "chain:linear-linear")
SUB_HALF = ("sub:half-finite", "sub:half-inner")
# nodes extremely close to the end points (|r'| beyond 1e16 while still finite)
EXTREME = (("TanhSinh", 61), ("TanhSinh", 81), ("GaussChebyshev", 100), ("GaussChebyshevType2", 200), ("FejerFirst", 150),
           ("GaussLegendre", 100))
PM1_TF = ("BeckeRTransform", "LinearFiniteRTransform", "MultiExpRTransform", "KnowlesRTransform",
          "HandyRTransform", "HandyModRTransform")
HALF_TF = ("IdentityRTransform", "LinearInfiniteRTransform", "ExpRTransform", "PowerRTransform",
           "HyperbolicRTransform")
# inverse wrappers usable on half-line rules: domain (rmin, inf) must contain (0, inf) => rmin = 0
INV_TF = ("BeckeRTransform", "KnowlesRTransform", "HandyRTransform", "MultiExpRTransform")


def make_rule(name, n):
    import grid.onedgrid as og
    from grid.basegrid import OneDGrid

    # hand-made grids whose domain is a proper sub-interval of the transformation's domain
    if name.startswith("sub:"):
        lo, hi = {"sub:pm1-inner": (-0.5, 0.5), "sub:pm1-right": (0.0, 0.5), "sub:pm1-left": (-1.0, 0.25),
                  "sub:half-finite": (0.0, 10.0), "sub:half-inner": (1.0, 5.0)}[name]
        base = og.GaussLegendre(n)
        return OneDGrid(0.5 * (hi - lo) * (base.points + 1) + lo, 0.5 * (hi - lo) * base.weights, (lo, hi))
    if name == "int:pm1":
        # a user-built closed rule whose node array has an integer dtype (Simpson's nodes -1, 0, 1; five nodes for n > 4)
        k = 3 if n < 5 else 5
        x = np.linspace(-1, 1, k).astype(int) if k == 3 else np.array([-1, 0, 0, 0, 1])
        if k == 3:
            return OneDGrid(x, np.array([1.0, 4.0, 1.0]) / 3.0, (-1, 1))
        return OneDGrid(np.array([-1, 0, 1]), np.array([1.0, 4.0, 1.0]) / 3.0, (-1, 1))
    if name == "one:gl-slice":
        return og.GaussLegendre(5)[3:4]          # a one-point grid obtained by selection
    if name == "one:gc2":
        return og.GaussChebyshevType2(1)
    if name == "one:half":
        return OneDGrid(np.array([0.7]), np.array([1.3]), (0, np.inf))
    if name == "int:half":
        return OneDGrid(np.arange(n, dtype=np.int64), np.ones(n), (0, np.inf))
    if name == "chain:multiexp-first":
        # a grid produced by a DECREASING map (nodes in descending order), to be transformed again
        from grid.rtransform import MultiExpRTransform

        with warnings.catch_warnings():
            warnings.simplefilter("ignore")
            return MultiExpRTransform(0.0, 1.5).transform_1d_grid(og.GaussLegendre(n))
    if name == "chain:linear-linear":
        from grid.rtransform import LinearFiniteRTransform

        return LinearFiniteRTransform(-0.5, 0.5).transform_1d_grid(og.GaussLegendre(n))

    odd_only = ("Simpson", "TanhSinh", "ExpSinh", "LogExpSinh", "ExpExp", "SingleTanh", "SingleExp",
                "SingleArcSinhExp")
    if name in odd_only and n % 2 == 0:
        n += 1  # these rules document odd n only
    with warnings.catch_warnings():
        warnings.simplefilter("ignore")
        if name == "ExpSinh":
            return og.ExpSinh(n, h=0.3)
        return getattr(og, name)(n)


def tf_configs(thorough):
    """(class, params, wrapped-in-Inverse?) for both rule families."""
    pm1, half = [], []
    for name, p in c03.configs():
        if name in PM1_TF:
            pm1.append((name, p, False))
            if name in INV_TF and p["rmin"] == 0.0:
                half.append((name, p, True))
        elif name in HALF_TF:
            half.append((name, p, False))
            if name in ("LinearInfiniteRTransform", "ExpRTransform", "PowerRTransform") and p["b"] == c03.BS[0]:
                q = dict(p)
                q["b"] = None  # inferred from the grid
                half.append((name, q, False))
    if not thorough:
        def reduced(lst):
            keep = []
            for name, p, inv in lst:
                ok = True
                for k, v in p.items():
                    alpha = {"rmin": c03.RMINS, "R": c03.RS, "k": c03.KS, "m": c03.MS, "trim_inf": c03.TRIM}.get(k)
                    if alpha is not None and k != "trim_inf" and v not in alpha[:2] and not (k in ("k", "m") and v in (alpha[0], alpha[2], alpha[3])):
                        ok = False
                if ok:
                    keep.append((name, p, inv))
            return keep
        pm1, half = reduced(pm1), reduced(half)
    return pm1, half


def _build_tf(name, p, inv):
    import grid.rtransform as rt

    tf = getattr(rt, name)(**p)
    return rt.InverseRTransform(tf) if inv else tf


def _oracle_nodes(name, p, inv, xs):
    """(r_i, r'_i) floats (nan/inf where singular) of the map applied to the rule (x -> r), for the
    wrapper the inverse map (found by root finding on the forward docstring formula)."""
    mp.mp.dps = 30
    q = {k: v for k, v in p.items() if k != "trim_inf"}
    f = rtf.forward(name, q)
    out = []
    for x in xs:
        try:
            if not inv:
                r0 = f(mp.mpf(x))
                r1 = mp.diff(f, mp.mpf(x))
                out.append((float(r0), float(r1)))
            else:
                # x is a radius; the wrapper maps it to t with f(t) = x
                guess = {"BeckeRTransform": 0.0, "KnowlesRTransform": 0.0, "HandyRTransform": 0.0,
                         "MultiExpRTransform": 0.0}[name]
                # closed-form inverses from the docstrings give a good starting point
                t0 = _inverse_guess(name, q, x)
                t = mp.findroot(lambda t: f(t) - mp.mpf(x), mp.mpf(t0 if t0 is not None else guess), tol=mp.mpf("1e-25"))
                out.append((float(t), float(1 / mp.diff(f, t))))
        except Exception:
            out.append((float("nan"), float("nan")))
    return out


def _inverse_guess(name, q, r):
    import math

    try:
        if name == "BeckeRTransform":
            return (r - q["rmin"] - q["R"]) / (r - q["rmin"] + q["R"])
        if name == "MultiExpRTransform":
            return 2 * math.exp(-(r - q["rmin"]) / q["R"]) - 1
        if name == "KnowlesRTransform":
            return 2 * (1 - math.exp(-(r - q["rmin"]) / q["R"])) ** (1 / q["k"]) - 1
        if name == "HandyRTransform":
            a = (r - q["rmin"]) ** (1 / q["m"])
            b = q["R"] ** (1 / q["m"])
            return (a - b) / (a + b)
    except Exception:
        return None
    return None


def _case(arg):
    rule_name, n, name, p0, inv, seed, expect_reject = arg
    tag = (f"Inverse({name})" if inv else name)
    res = WorkerResult(section=tag)
    case = {"rule": rule_name, "n": n, "class": name, "params": p0, "inverse": inv, "expect_reject": expect_reject}
    p = c03.perturb(name, {k: v for k, v in p0.items() if v is not None}, seed)
    if p0.get("b", 0) is None:
        p["b"] = None
    with warnings.catch_warnings():
        warnings.simplefilter("ignore")
        rule = make_rule(rule_name, n)
        tf = _build_tf(name, p, inv)
        x = np.array(rule.points, dtype=float)
        w = np.array(rule.weights, dtype=float)
        res.count()
        try:
            with np.errstate(all="ignore"):
                new = tf.transform_1d_grid(rule)
        except ZeroDivisionError as exc:
            # documented clean refusal of the generic inverse-derivative formulas when a node sits
            # where the wrapped map has zero slope (singular node of the inverse map)
            nodes = _oracle_nodes(name, {k: v for k, v in p.items() if v is not None}, inv, x)
            if inv and any(not np.isfinite(r1) or abs(r1) > 1e12 for _, r1 in nodes):
                res.inadm()
                return res.as_dict()
            res.violation(f"{tag}:raised:ZeroDivisionError", f"{tag}({p}).transform_1d_grid({rule_name}({n})): {exc}", case)
            return res.as_dict()
        except ValueError as exc:
            if expect_reject:
                res.nontrivial()
                return res.as_dict()
            if not inv and p.get("trim_inf"):
                nodes = _oracle_nodes(name, {k: v for k, v in p.items() if v is not None}, inv, x)
                if any(np.isfinite(r0) and abs(r0) >= 1e16 for r0, _ in nodes):
                    # an interior node maps beyond the number that represents infinity under
                    # trimming: outside what the 1e16 convention can express (counted)
                    res.inadm()
                    return res.as_dict()
            if name == "HyperbolicRTransform" and (np.max(x) >= 1.0 / p["b"] or p["b"] * (len(x) - 1) >= 1.0):
                # nodes beyond the pole 1/b (or the documented b*(N-1) < 1 rule): not admissible
                res.inadm()
                return res.as_dict()
            res.violation(f"{tag}:rejected-admissible-grid",
                          f"{tag}({p}).transform_1d_grid({rule_name}({n})) raised ValueError: {exc}", case)
            return res.as_dict()
        except Exception as exc:
            res.violation(f"{tag}:raised:{type(exc).__name__}",
                          f"{tag}({p}).transform_1d_grid({rule_name}({n})) raised {type(exc).__name__}: {exc}", case)
            return res.as_dict()
    if expect_reject:
        res.violation(f"{tag}:domain-mismatch-not-rejected",
                      f"{rule_name} on {rule.domain} was accepted by {tag} with domain {tf.domain}", case)
        return res.as_dict()
    if not np.array_equal(rule.points, x) or not np.array_equal(rule.weights, w):
        res.violation(f"{tag}:input-grid-modified", "transform_1d_grid modified the input grid", case)
    pq = dict(p)
    if pq.get("b", 0) is None:
        pq["b"] = float(np.max(x))  # documented: inferred from the first grid
    nodes = _oracle_nodes(name, pq, inv, x)
    trim = bool(p.get("trim_inf", False)) and not inv
    np_pts = np.asarray(new.points, dtype=float)
    np_w = np.asarray(new.weights, dtype=float)
    if np_pts.shape != x.shape or np_w.shape != w.shape:
        res.violation(f"{tag}:shape", "transformed grid has a different number of nodes", case)
        return res.as_dict()
    fin_r1 = [abs(r1) for _, r1 in nodes if np.isfinite(r1)]
    jac_scale = max(fin_r1 + [1e-3] + [abs(r0) for r0, _ in nodes if np.isfinite(r0)])
    signed_match = 0
    abs_match = 0
    regular = 0
    decreasing = None
    for i, (r0, r1) in enumerate(nodes):
        res.count()
        if not (np.isfinite(r0) and np.isfinite(r1)):
            # singular node: only the +-inf convention of the point is required
            res.inadm()
            want = 1e16 if trim else np.inf
            if np.isinf(r0):
                if not (abs(np_pts[i]) == want or (not trim and np.isinf(np_pts[i]))):
                    res.violation(f"{tag}:singular-node-convention",
                                  f"node x={x[i]} maps to {np_pts[i]}, expected +-{want}", case)
            continue
        regular += 1
        decreasing = (r1 < 0) if decreasing is None else decreasing
        # conditioning: maps on [-1, 1] evaluate 1 -+ x (or 1 - q^k) in floating point; a node within
        # delta of an end point carries a relative rounding error ~ eps/delta in those quantities
        cond = 0.0
        if tuple(rule.domain) == (-1, 1) or name in PM1_TF and not inv:
            cond = 16 * np.finfo(float).eps / max(1.0 - abs(x[i]), 1e-300) if abs(x[i]) < 1 else 0.0
        rt = RTOL + cond
        if _gt(abs(np_pts[i] - r0), rt * (abs(r0) + 1e-3)):
            res.violation(f"{tag}:points-not-mapped-nodes",
                          f"{tag}: node x={x[i]:.6g} of {rule_name}({n}) became {np_pts[i]:.12g}, the map gives {r0:.12g}", case)
        ew = w[i] * abs(r1)
        atol = 1e-13 * abs(w[i]) * jac_scale + 1e-300  # r'(x_i) may vanish (e.g. Handy m=2 at x=-1)
        if abs(np_w[i] - ew) <= 3 * rt * abs(ew) + atol:
            abs_match += 1
        if abs(np_w[i] - w[i] * r1) <= 3 * rt * abs(ew) + atol:
            signed_match += 1
    if regular:
        res.nontrivial()
        if abs_match != regular:
            if signed_match == regular and decreasing:
                g = float(np.sum(np_w * np.exp(-np.clip(np_pts, 0, 700))))
                res.violation(
                    f"{tag}:decreasing-map:weights-carry-sign-of-jacobian",
                    f"{tag} is decreasing and transform_1d_grid multiplies by r'(x) instead of |r'(x)|: "
                    f"all {regular} weights of {rule_name}({n}) equal w_i r'(x_i) < 0; integral of exp(-r) = {g:.6g}",
                    case, integral_exp=g)
            else:
                res.violation(f"{tag}:weights-not-w-times-jacobian",
                              f"{tag}: weights of the transformed {rule_name}({n}) are not w_i |r'(x_i)| "
                              f"({abs_match}/{regular} match; signed match {signed_match})", case)
        elif np.all(w >= 0) and np.any(np_w[np.isfinite(np_w)] < 0):
            res.violation(f"{tag}:negative-weights", "non-negative weights became negative", case)
    # domain: ordered image of the old domain, contains every node
    res.count()
    dom = new.domain
    lo, hi = rule.domain
    imgs = []
    for e in (lo, hi):
        (r0, _), = _oracle_nodes(name, pq, inv, [e]) if np.isfinite(e) else [(_limit_at_inf(name, pq, inv), 0.0)]
        if np.isnan(r0):
            imgs.append(None)
        elif np.isinf(r0):
            imgs.append(np.sign(r0) * (1e16 if trim else np.inf))
        else:
            imgs.append(r0)
    if None not in imgs:
        want = tuple(sorted(imgs))
        ok = dom is not None and len(dom) == 2 and all(
            (a == b) or (np.isfinite(b) and abs(a - b) <= 1e-9 * (1 + abs(b))) for a, b in zip(dom, want))
        if not ok and dom is not None and any(isinstance(v, float) and v != v for v in map(float, dom)):
            res.violation(f"{tag}:domain:nan-image-of-infinity",
                          f"{tag}: new domain {tuple(map(float, dom))} contains nan: the image of +inf under the "
                          f"closed-form inverse is (inf-c)/(inf+c); the ordered image of {rule.domain} is {want}", case)
        elif not ok:
            res.violation(f"{tag}:domain-not-ordered-image",
                          f"{tag}: new domain {dom}, ordered image of {rule.domain} is {want}", case)
        fin = np_pts[np.isfinite(np_pts)]
        if dom is not None and len(fin) and (fin.min() < dom[0] - 1e-7 or fin.max() > dom[1] + 1e-7):
            res.violation(f"{tag}:node-outside-domain", f"{tag}: nodes outside the declared domain {dom}", case)
    else:
        res.inadm()
    # two-step histories on the same (transformation, grid) pair: a second call after the first result was edited in
    # place gives the first result again, and a call after the grid's weights / points were reassigned through their
    # setters transforms the NEW contents (a result remembered per pair of objects fails both)
    res.count()
    try:
        with warnings.catch_warnings(), np.errstate(all="ignore"):
            warnings.simplefilter("ignore")
            p_first, w_first = np_pts.copy(), np_w.copy()
            # (through the setters: the identity map hands the grid's own point array on, so an in-place edit of the
            # result would edit the argument, which is outside this property)
            new.weights = new.weights * 3.0 + 1.0
            new.points = new.points - 0.5
            again = tf.transform_1d_grid(rule)
            if not (np.array_equal(again.points, p_first, equal_nan=True) and np.array_equal(again.weights, w_first, equal_nan=True)):
                res.violation(f"{tag}:history:second-call-differs-after-first-result-edited",
                              f"{tag}: transform_1d_grid({rule_name}({n})) called again after the first result's arrays were reassigned "
                              f"does not return the first result's original values", case)
            rule.weights = 2.0 * w
            doubled = tf.transform_1d_grid(rule)
            if not np.array_equal(doubled.weights, 2.0 * w_first, equal_nan=True) or not np.array_equal(doubled.points, p_first, equal_nan=True):
                res.violation(f"{tag}:history:stale-after-weights-reassigned",
                              f"{tag}: after rule.weights = 2 w the transformed weights are not twice the earlier ones", case)
            rule.points = x[::-1].copy()
            rule.weights = w[::-1].copy()
            flipped = tf.transform_1d_grid(rule)
            if not np.array_equal(flipped.points, p_first[::-1], equal_nan=True) or not np.array_equal(flipped.weights, w_first[::-1], equal_nan=True):
                res.violation(f"{tag}:history:stale-after-points-reassigned",
                              f"{tag}: after the grid's points and weights were reassigned in reverse order the transformed grid is "
                              f"not the reverse of the earlier one", case)
            res.nontrivial()
    except Exception as exc:
        res.violation(f"{tag}:history:raised:{type(exc).__name__}", f"{tag}: repeated transform_1d_grid raised {type(exc).__name__}: {exc}", case)
    res.sample({"rule": rule_name, "n": n, "transform": tag, "params": p0})
    return res.as_dict()


def _limit_at_inf(name, q, inv):
    """Image of +inf for the half-line maps."""
    if inv:
        return {"BeckeRTransform": 1.0, "KnowlesRTransform": 1.0, "HandyRTransform": 1.0, "MultiExpRTransform": -1.0}[name]
    if name in ("IdentityRTransform", "LinearInfiniteRTransform", "ExpRTransform", "PowerRTransform"):
        return np.inf
    return np.nan  # Hyperbolic: pole at 1/b, the image of [0, inf) is not an interval


def _gl_exactness(ctx):
    """Gauss-Legendre mapped linearly to [a,b]: x^k exact for k <= 2n-1 (exact rational reference)."""
    from grid.onedgrid import GaussLegendre
    from grid.rtransform import LinearFiniteRTransform

    for n in (2, 3, 4, 5, 8, 13, 21):
        for a, b in ((Fraction(0), Fraction(1)), (Fraction(1, 5), Fraction(3)), (Fraction(-2), Fraction(7, 2)),
                     (Fraction(1, 1000), Fraction(20))):
            g = LinearFiniteRTransform(float(a), float(b)).transform_1d_grid(GaussLegendre(n))
            for k in range(2 * n):
                ctx.count(section="gl-exactness")
                ref = float((b ** (k + 1) - a ** (k + 1)) / (k + 1))
                got = float(np.sum(g.weights * g.points**k))
                scale = float(np.sum(np.abs(g.weights) * np.abs(g.points) ** k))
                ctx.nontrivial(("gl", n, str(a), str(b), k), section="gl-exactness")
                if _gt(abs(got - ref), 1e-13 * scale * (k + 4)):
                    ctx.violation("gl-linear:exactness-not-transported",
                                  f"GaussLegendre({n}) mapped to [{a},{b}] integrates x^{k} to {got}, exact {ref}",
                                  {"route": "gl", "n": n, "a": float(a), "b": float(b), "k": k})
            if tuple(g.domain) != (float(a), float(b)):
                ctx.violation("gl-linear:domain", f"domain {g.domain} is not [{a},{b}]", {"route": "gl", "n": n})


def run(ctx):
    pm1, half = tf_configs(ctx.thorough)
    jobs = []
    for rn, n in itertools.product(PM1_RULES, NS):
        for name, p, inv in pm1:
            jobs.append((rn, n, name, p, inv, ctx.seed, False))
    for rn, n in itertools.product(HALF_RULES, NS):
        for name, p, inv in half:
            jobs.append((rn, n, name, p, inv, ctx.seed, False))
    # sub-interval domains and extreme nodes (added after seeded changes C04-A / C04-B were missed)
    for rn, n in itertools.product(SUB_PM1, (3, 6)):
        for name, p, inv in pm1[:: 1 if ctx.thorough else 3]:
            jobs.append((rn, n, name, p, inv, ctx.seed, False))
    for rn, n in itertools.product(SUB_HALF, (3, 6)):
        for name, p, inv in half[:: 1 if ctx.thorough else 3]:
            jobs.append((rn, n, name, p, inv, ctx.seed, False))
    for rn, n in EXTREME:
        for name, p, inv in pm1[:: 1 if ctx.thorough else 4]:
            jobs.append((rn, n, name, p, inv, ctx.seed, False))
    # one-point grids, integer-dtype node arrays, and grids that came out of a decreasing map (added after seeded
    # changes C04-G / C04-H were missed)
    for rn in ("one:gl-slice", "one:gc2", "int:pm1"):
        for name, p, inv in pm1[:: 1 if ctx.thorough else 2]:
            jobs.append((rn, 1 if rn != "int:pm1" else 3, name, p, inv, ctx.seed, False))
    for rn, n in (("int:half", 5), ("chain:multiexp-first", 4), ("one:half", 1)):
        for name, p, inv in half[:: 1 if ctx.thorough else 2]:
            if name == "HyperbolicRTransform" and rn.startswith("chain:"):
                continue      # nodes beyond the pole 1/b of the hyperbolic map: not a grid it can take
            jobs.append((rn, n, name, p, inv, ctx.seed, False))
    # domain mismatches must be rejected (one representative per class pair)
    for rn in (PM1_RULES[0], PM1_RULES[5]):
        for name, p, inv in half[:: max(1, len(half) // 12)]:
            jobs.append((rn, 5, name, p, inv, ctx.seed, True))
    for rn in (HALF_RULES[0], HALF_RULES[1]):
        for name, p, inv in pm1[:: max(1, len(pm1) // 12)]:
            jobs.append((rn, 5, name, p, inv, ctx.seed, True))
    for res in lattice.pmap(_case, jobs, ctx.workers, chunksize=16):
        if len(ctx.samples) > 8:
            res["samples"] = []
        ctx.merge(res)
    ctx.guarded("gl-exactness", _gl_exactness, ctx)
    ctx.cov["cases"] = len(jobs)
    ctx.cov["transform_configs"] = {"pm1": len(pm1), "half_line": len(half)}
    ctx.exhaustive = True


def replay(ctx, case):
    if case.get("route") == "gl":
        _gl_exactness(ctx)
        return
    ctx.merge(_case((case["rule"], case["n"], case["class"], case["params"], case["inverse"], ctx.seed,
                     case.get("expect_reject", False))))
