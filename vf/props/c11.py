"""C11 -- periodic local grids contain every periodic image inside the sphere exactly once.

Engine E2 (complete product): point dimension 1..3 x lattice menus with 0..dim vectors
(orthogonal, skewed, negative, long (20) / short (0.7), non-unit and negative in 1-D) x wrap
{off, on} x point sets (inside the cell, outside, on the cell boundary) x 5 centres (inside,
on a grid point, outside the cell, far away, negative) x radii {0, small, > cell, 2.7 x cell,
empty}.

Oracle: brute force over all lattice translations in a per-direction box derived from the plane
spacings (|f_k(p)+n_k-f_k(c)| <= radius/spacing_k, margin 2): the multiset of (parent index, rounded position) must be equal, each
once, weight = parent weight, stored position = parent point + translation; ties within
1e-12*(1+r) of the sphere surface are excluded and counted; ``wrap`` leaves the caller's array
untouched and yields fractional coordinates in [0, 1); without lattice vectors the class behaves
as the plain grid (incl. radius = inf).
"""

from __future__ import annotations

import itertools
import warnings

import numpy as np

from vf import lattice
from vf.cli import WorkerResult


def _gt(a, b):
    """a > b that is also True when a is NaN (a silent NaN must never pass a tolerance test)."""
    return ~(np.asarray(a) <= np.asarray(b))


LEVEL = "exploration"
RULE = (
    "complete product dimension x lattice menu x wrap x point set x centre x radius; one "
    "evaluation = one local-grid query compared with brute-force image enumeration; distinct "
    "non-trivial = distinct query whose reference set is decided (ties excluded)"
)
ASSUMPTIONS = [
    "images within 1e-12*(1+r) of the sphere surface are ties (excluded, counted)",
    "brute-force enumeration box: per lattice direction all n_k with |f_k(p)+n_k-f_k(c)| <= radius/spacing_k, plus a margin of 2",
]

TIE = 1e-12
LATTICES = {
    1: {"none": None, "unit": np.array([1.0]), "nonunit": np.array([1.3]), "negative": np.array([-0.9]),
        "long": np.array([20.0]), "short": np.array([0.7])},
    2: {"none": None, "one": np.array([[1.0, 0.2]]), "one-neg": np.array([[-0.8, 0.3]]),
        "ortho": np.array([[1.0, 0.0], [0.0, 1.4]]), "skew": np.array([[1.0, 0.3], [0.5, 1.1]]),
        "neg": np.array([[-1.0, 0.1], [0.2, -0.9]]), "long-short": np.array([[20.0, 0.0], [0.1, 0.7]]),
        # strongly skewed cells (plane spacing much smaller than the vector lengths) and the hexagonal cell: added after
        # seeded change C11-E (a shortcut valid only while 2 r < smallest plane spacing, tested against vector lengths)
        "strong-skew": np.array([[1.0, 0.0], [0.8, 0.6]]), "hexagonal": np.array([[1.0, 0.0], [0.5, 0.8660254037844386]]),
        "sliver": np.array([[1.0, 0.0], [0.95, 0.3]])},
    3: {"none": None, "one": np.array([[0.2, 0.1, 1.1]]), "two": np.array([[1.0, 0.0, 0.0], [0.3, 1.2, 0.1]]),
        "ortho": np.diag([1.0, 1.3, 0.8]), "skew": np.array([[1.0, 0.2, 0.0], [0.3, 1.1, 0.1], [0.1, -0.4, 0.9]]),
        "neg": np.array([[-1.0, 0.0, 0.1], [0.2, 1.0, 0.0], [0.0, 0.3, -0.8]]),
        "long-short": np.array([[20.0, 0.0, 0.0], [0.0, 0.7, 0.0], [0.2, 0.1, 1.0]]),
        "strong-skew": np.array([[1.0, 0.0, 0.0], [0.8, 0.6, 0.0], [0.7, 0.3, 0.5]]),
        "two-skew": np.array([[1.0, 0.0, 0.2], [0.85, 0.5, 0.0]])},
}
POINTSETS = ("inside", "outside", "boundary", "far-orth")


def make_points(dim, rv, kind, seed):
    rng = np.random.default_rng([seed, dim, sum(map(ord, kind))])
    n = 6
    if rv is None:
        p = rng.uniform(-1.0, 1.0, (n, dim))
    else:
        vec = np.atleast_2d(rv)
        frac = rng.uniform(0.05, 0.95, (n, len(vec)))
        if kind == "outside":
            frac = frac + rng.integers(-2, 3, (n, len(vec)))
        elif kind == "boundary":
            frac[0] = 0.0
            frac[1] = np.where(np.arange(len(vec)) == 0, 1.0, 0.5)
            frac[2] = 0.5
        p = frac @ vec
        # components orthogonal to the lattice (when nvec < dim); "far-orth": some points far along the non-periodic
        # directions (nothing periodic brings them back)
        spread = 0.6 if kind != "far-orth" else np.array([0.6, 0.6, 45.0, 0.6, 0.6, -80.0])[:, None]
        p = p + _orth_part(vec, rng.uniform(-1.0, 1.0, (n, dim)) * spread)
    w = rng.uniform(0.1, 1.0, n)
    # a masked point (weight exactly zero) and a negative weight: the local grid holds every IMAGE inside the sphere whatever
    # its weight (seeded change C11-L dropped the points of zero weight)
    w[3], w[5] = 0.0, -0.25
    return (p[:, 0] if dim == 1 else p), w


def _orth_part(vec, x):
    """remove the lattice-span component of x (rows), keeping the orthogonal complement"""
    q, _ = np.linalg.qr(vec.T)
    return x - (x @ q) @ q.T


def brute(points, weights, rv, center, radius):
    pts = np.asarray(points, dtype=float).reshape(len(points), -1)
    dim = pts.shape[1]
    vec = np.zeros((0, dim)) if rv is None else np.atleast_2d(np.asarray(rv, dtype=float)).reshape(-1, dim)
    c = np.atleast_1d(np.asarray(center, dtype=float))
    if len(vec):
        rec = np.linalg.pinv(vec)            # columns: reciprocal vectors b_k, a_j . b_k = delta_jk
        spac = 1.0 / np.linalg.norm(rec, axis=0)   # distance between adjacent lattice planes
        # |(p + n.a - c) . b_k| <= |p + n.a - c| |b_k|, so an image within `radius` has
        # |f_k(p) + n_k - f_k(c)| <= radius / spacing_k: a per-direction box (plus a margin of 2)
        fp, fc = pts @ rec, c @ rec
        lo = np.floor(fc - fp.max(axis=0) - radius / spac).astype(int) - 2
        hi = np.ceil(fc - fp.min(axis=0) + radius / spac).astype(int) + 2
        ranges = [range(a, b + 1) for a, b in zip(lo, hi)]
    else:
        ranges = []
    inside, ties = [], 0
    for n in itertools.product(*ranges):
        t = np.array(n, dtype=float) @ vec if len(vec) else np.zeros(dim)
        d = np.linalg.norm(pts + t - c, axis=1)
        # (also at radius 0: image positions are sums p + n.a, the library compares displaced
        # centres in fractional coordinates, so exact coincidence is a rounding tie here)
        tie = np.abs(d - radius) <= TIE * (1 + radius)
        ties += int(tie.sum())
        for i in np.nonzero((d <= radius) & ~tie)[0]:
            inside.append((int(i), tuple(np.round(pts[i] + t, 9) + 0.0)))
    return sorted(inside), ties


def _case(arg):
    dim, lname, wrap, pkind, seed = arg
    from grid.periodicgrid import PeriodicGrid

    res = WorkerResult(section=f"dim{dim}:{lname}")
    rv = LATTICES[dim][lname]
    pts, w = make_points(dim, rv, pkind, seed)
    keep = pts.copy()
    case0 = {"dim": dim, "lattice": lname, "wrap": wrap, "points": pkind}
    res.count()
    try:
        with warnings.catch_warnings():
            warnings.simplefilter("ignore")
            g = PeriodicGrid(pts, w, rv, wrap=wrap)
    except Exception as exc:
        res.violation(f"construct:raised:{type(exc).__name__}",
                      f"PeriodicGrid(dim={dim}, lattice={lname}, wrap={wrap}) raised {type(exc).__name__}: {exc}", case0)
        return res.as_dict()
    if not np.array_equal(pts, keep):
        res.violation("wrap:caller-array-modified", "the constructor modified the caller's points", case0)
    gp = np.asarray(g.points, dtype=float)
    if rv is not None and wrap:
        vec = np.atleast_2d(rv).reshape(-1, dim)
        frac = gp.reshape(len(gp), -1) @ np.linalg.pinv(vec)
        if frac.min() < -1e-12 or frac.max() >= 1 + 1e-12:
            res.violation("wrap:fractional-coordinates-outside-[0,1)", f"fractional coordinates in [{frac.min()}, {frac.max()}]", case0)
        # wrapped points are lattice images of the originals
        diff = (gp.reshape(len(gp), -1) - keep.reshape(len(gp), -1)) @ np.linalg.pinv(vec)
        if _gt(np.max(np.abs(diff - np.round(diff))), 1e-9):
            res.violation("wrap:not-a-lattice-translation", "wrapped points are not lattice images of the given points", case0)
    elif not np.array_equal(gp, keep):
        res.violation("points-changed-without-wrap", "points differ from the given ones although wrap is off", case0)
    pr = gp.reshape(len(gp), -1)
    cell = 1.0 if rv is None else float(np.max(np.linalg.norm(np.atleast_2d(rv).reshape(-1, dim), axis=1)))
    cell = min(cell, 3.0)
    centres = [pr.mean(axis=0), pr[2].copy(), pr.mean(axis=0) + 1.7 * cell, pr.mean(axis=0) + np.array([37.3, -21.0, 11.0])[:dim],
               -pr.mean(axis=0) - 0.4]
    radii = [0.0, 0.35, 1.2 * cell, 2.7 * cell if cell < 3 else 3.5, 1e-3]
    if rv is not None:
        # radii placed relative to BOTH natural lengths of the cell: the smallest plane spacing and the shortest vector
        vec = np.atleast_2d(rv).reshape(-1, dim)
        smin = float(np.min(1.0 / np.linalg.norm(np.linalg.pinv(vec), axis=0)))
        amin = float(np.min(np.linalg.norm(vec, axis=1)))
        radii += [0.45 * smin, 0.55 * smin, 0.5 * (0.5 * smin + 0.5 * amin), 0.48 * amin, 0.52 * amin]
    for ci, c in enumerate(centres):
        cc = np.float64(c[0]) if dim == 1 else c
        for r in radii:
            res.count()
            case = dict(case0, centre=ci, radius=r)
            try:
                with warnings.catch_warnings():
                    warnings.simplefilter("ignore")
                    loc = g.get_localgrid(cc, r)
            except Exception as exc:
                res.violation(f"query:raised:{type(exc).__name__}", f"get_localgrid(centre {ci}, radius {r}) raised "
                              f"{type(exc).__name__}: {exc} (dim={dim}, lattice={lname}, wrap={wrap})", case)
                continue
            ref, ties = brute(gp, w, rv, c, r)
            if ties:
                res.inadm()
                continue
            res.nontrivial()
            li = np.asarray(loc.indices)
            lp = np.asarray(loc.points, dtype=float).reshape(len(li), -1) if len(li) else np.zeros((0, dim))
            got = sorted((int(i), tuple(np.round(p, 9) + 0.0)) for i, p in zip(li, lp))
            if got != ref:
                gi, ri = [x[0] for x in got], [x[0] for x in ref]
                if len(got) > len(set(got)):
                    sig = "duplicate-images"
                elif len(got) < len(ref):
                    sig = "images-missing"
                elif len(got) > len(ref):
                    sig = "extra-images"
                else:
                    sig = "wrong-positions" if sorted(gi) == sorted(ri) else "wrong-images"
                res.violation(f"query:{sig}", f"dim={dim} lattice={lname} wrap={wrap} points={pkind} centre {ci} radius {r}: "
                              f"{len(got)} images returned, brute force finds {len(ref)}", case)
                continue
            if len(li) and not np.array_equal(np.asarray(loc.weights), w[li]):
                res.violation("query:weights-not-parent-weights", "local weights are not the parent weights of the indices", case)
            if len(li) == 0 and (np.asarray(loc.points).shape[1:] != gp.shape[1:] or loc.size != 0):
                res.violation("query:empty-grid-malformed", f"empty local grid has points shape {np.asarray(loc.points).shape}", case)
            if not np.array_equal(np.asarray(loc.center), np.asarray(cc)):
                res.violation("query:center-not-echoed", "centre is not echoed", case)
    # argument forms of the centre (added after seeded change C11-A of wave 12 was missed): a centre with whole-number
    # coordinates given as an integer array, a list, a tuple or a Python int answers exactly like the same centre in floats
    ic = np.round(pr.mean(axis=0)).astype(int) + np.array([1, -2, 3])[:dim]
    fc = ic.astype(float)
    forms = [("int64", ic.astype(np.int64)), ("int32", ic.astype(np.int32)), ("list", [int(v) for v in ic]), ("tuple", tuple(int(v) for v in ic))]
    if dim == 1:
        forms = [("int64", np.int64(ic[0])), ("int32", np.int32(ic[0])), ("int", int(ic[0]))]
    for r in (radii[1], radii[2], radii[-2]):
        try:
            with warnings.catch_warnings():
                warnings.simplefilter("ignore")
                base = g.get_localgrid(np.float64(fc[0]) if dim == 1 else fc, r)
        except Exception as exc:
            res.violation(f"query:raised:{type(exc).__name__}", f"get_localgrid(whole-number centre, radius {r}): {exc}", dict(case0, centre="whole", radius=r))
            continue
        ref, ties = brute(gp, w, rv, fc, r)
        bi = np.asarray(base.indices)
        bp = np.asarray(base.points, dtype=float).reshape(len(bi), -1) if len(bi) else np.zeros((0, dim))
        res.count()
        if not ties:
            res.nontrivial()
            if sorted((int(i), tuple(np.round(q, 9) + 0.0)) for i, q in zip(bi, bp)) != ref:
                res.violation("query:wrong-images", f"dim={dim} lattice={lname} wrap={wrap}: whole-number centre {fc.tolist()} radius {r}: "
                              f"{len(bi)} images, brute force finds {len(ref)}", dict(case0, centre="whole", radius=r))
        for fname, cform in forms:
            res.count()
            case = dict(case0, centre=f"whole:{fname}", radius=r)
            try:
                with warnings.catch_warnings():
                    warnings.simplefilter("ignore")
                    loc = g.get_localgrid(cform, r)
            except Exception as exc:
                res.violation(f"centre-form:raised:{type(exc).__name__}", f"get_localgrid(centre as {fname} {ic.tolist()}, radius {r}) raised "
                              f"{type(exc).__name__}: {exc}; the same centre in floats is answered", case)
                continue
            res.nontrivial()
            li = np.asarray(loc.indices)
            lp = np.asarray(loc.points, dtype=float).reshape(len(li), -1) if len(li) else np.zeros((0, dim))
            if not np.array_equal(li, bi) or lp.shape != bp.shape or not np.array_equal(lp, bp) or not np.array_equal(np.asarray(loc.weights), np.asarray(base.weights)):
                res.violation("centre-form:differs-from-float-centre", f"dim={dim} lattice={lname} wrap={wrap}: centre {ic.tolist()} given as {fname} "
                              f"returns {len(li)} images, the same centre in floats {len(bi)} (or other positions)", case)
    # three-step history (added after seeded change C11-B was missed): the parent has answered queries
    # (its neighbour tree exists), a selection of it must answer for ITS OWN points
    for iname, index in (("slice", slice(2, None)), ("array", np.array([4, 0, 3]))):
        res.count()
        case = dict(case0, history=f"query, select[{iname}], query")
        try:
            with warnings.catch_warnings():
                warnings.simplefilter("ignore")
                sub = g[index]
                c = centres[0]
                cc = np.float64(c[0]) if dim == 1 else c
                r = radii[2]
                loc = sub.get_localgrid(cc, r)
            ref, ties = brute(np.asarray(sub.points), np.asarray(sub.weights), rv, c, r)
            if ties:
                res.inadm()
                continue
            li = np.asarray(loc.indices)
            lp = np.asarray(loc.points, dtype=float).reshape(len(li), -1) if len(li) else np.zeros((0, dim))
            got = sorted((int(i), tuple(np.round(p, 9) + 0.0)) for i, p in zip(li, lp))
            res.nontrivial()
            if got != ref or (len(li) and not np.array_equal(np.asarray(loc.weights), np.asarray(sub.weights)[li])):
                res.violation("history:selection-after-query:wrong-images", f"dim={dim} lattice={lname} wrap={wrap}: after the parent answered "
                              f"queries, grid[{iname}].get_localgrid returns {len(got)} images, brute force on the selection's own points "
                              f"finds {len(ref)}", case)
        except Exception as exc:
            res.violation(f"history:selection-after-query:raised:{type(exc).__name__}", f"dim={dim} lattice={lname}: {type(exc).__name__}: {exc}", case)
    # without lattice vectors: identical to the plain grid, including radius = inf
    if rv is None:
        from grid.basegrid import Grid

        plain = Grid(keep.copy(), w.copy())
        c = np.float64(pr.mean(axis=0)[0]) if dim == 1 else pr.mean(axis=0)
        for r in (0.5, 5.0, np.inf):
            res.count()
            case = dict(case0, centre=0, radius=repr(r))
            want = plain.get_localgrid(c, r)
            try:
                with warnings.catch_warnings():
                    warnings.simplefilter("ignore")
                    loc = g.get_localgrid(c, r)
            except Exception as exc:
                key = "no-lattice:radius-inf-rejected" if r == np.inf else f"no-lattice:raised:{type(exc).__name__}"
                res.violation(key, f"PeriodicGrid without lattice vectors: get_localgrid(radius={r}) raised {type(exc).__name__}: {exc}; "
                              f"the plain grid returns {want.size} points", case)
                continue
            res.nontrivial()
            if sorted(np.asarray(loc.indices).tolist()) != sorted(np.asarray(want.indices).tolist()):
                res.violation("no-lattice:differs-from-plain-grid", f"radius {r}: indices differ from Grid.get_localgrid", case)
    res.sample(case0)
    return res.as_dict()


def _exact_case(arg):
    """Exact-arithmetic sub-space (added after seeded change C11-A was missed): 1-D grids whose points,
    lattice vector (a power of two), centres and radii are dyadic rationals, so every distance and every
    fractional coordinate is computed exactly and an image ON the sphere surface is decidable: here
    nothing is treated as a tie, |p + n a - c| <= r is enforced literally."""
    a, wrap, seed = arg
    from grid.periodicgrid import PeriodicGrid

    res = WorkerResult(section="exact-dyadic-1d")
    pts = np.array([0.0, 0.125, 0.25, 0.5, 0.625, 0.875]) * abs(a) + (0.0 if wrap else 0.0)
    if not wrap:
        pts = pts + np.array([0.0, 0.0, abs(a), -abs(a), 0.0, 2 * abs(a)])  # some points outside the cell
    w = np.array([1.0, 2.0, 3.0, 4.0, 5.0, 6.0])
    case0 = {"exact": True, "a": a, "wrap": wrap}
    with warnings.catch_warnings():
        warnings.simplefilter("ignore")
        g = PeriodicGrid(pts.copy(), w, np.array([a]), wrap=wrap)
    gp = np.asarray(g.points, dtype=float)
    for c in (0.0, 0.25 * abs(a), float(gp[3]), float(gp.max()), float(gp.min()), -1.5 * abs(a), 3.0 * abs(a) + 0.125):
        for r in (0.0, 0.125 * abs(a), 0.5 * abs(a), abs(a), 1.25 * abs(a), 2.0 * abs(a), 3.0 * abs(a)):
            res.count()
            case = dict(case0, centre=c, radius=r)
            ref = []
            K = int(np.ceil((r + np.max(np.abs(gp - c))) / abs(a))) + 2
            for n in range(-K, K + 1):
                for i, p in enumerate(gp):
                    if abs(p + n * a - c) <= r:      # exact in floating point for dyadic inputs
                        ref.append((i, float(p + n * a)))
            ref.sort()
            try:
                with warnings.catch_warnings():
                    warnings.simplefilter("ignore")
                    loc = g.get_localgrid(np.float64(c), r)
            except Exception as exc:
                res.violation(f"exact:query:raised:{type(exc).__name__}", f"a={a} wrap={wrap} centre={c} radius={r}: {exc}", case)
                continue
            got = sorted((int(i), float(p)) for i, p in zip(np.asarray(loc.indices), np.asarray(loc.points, dtype=float).reshape(-1)))
            res.nontrivial()
            if got != ref:
                sig = "images-missing" if len(got) < len(ref) else ("extra-images" if len(got) > len(ref) else "wrong-images")
                res.violation(f"exact:query:{sig}", f"1-D dyadic lattice a={a}, wrap={wrap}, centre={c}, radius={r}: {len(got)} images, "
                              f"exactly {len(ref)} satisfy |p + n a - c| <= r (missing {sorted(set(ref) - set(got))[:3]})", case)
    return res.as_dict()


def _exact_nd_case(arg):
    """The exact sub-space in two and three dimensions: dyadic points, centres and radii on ORTHOGONAL dyadic lattices
    (for these the library's reciprocal vectors and fractional coordinates are exact, so an image exactly on the sphere
    is decidable; on skewed lattices the SVD rounds and such images are genuine floating-point ties).  |p + n.a - c| <= r
    is enforced literally, nothing is a tie."""
    lname, wrap, seed = arg
    from grid.periodicgrid import PeriodicGrid

    res = WorkerResult(section="exact-dyadic-nd")
    lat = {"sq2": np.array([[1.0, 0.0], [0.0, 1.0]]), "rect2": np.array([[1.0, 0.0], [0.0, 2.0]]), "one2": np.array([[2.0, 0.0]]),
           "neg2": np.array([[-1.0, 0.0], [0.0, 0.5]]),
           "cube3": np.eye(3), "box3": np.diag([1.0, 2.0, 0.5]), "two3": np.array([[1.0, 0.0, 0.0], [0.0, 1.0, 0.0]]),
           "neg3": np.diag([1.0, -2.0, 0.5])}[lname]
    dim = lat.shape[1]
    pts = np.array([[0, 0, 0], [0.5, 0.25, 0.75], [0.25, 0.75, 0.5], [0.75, 0.5, 0.25], [0.5, 0.5, 0.5]], dtype=float)[:, :dim]
    if not wrap:
        pts = pts + np.array([[0, 0, 0], [1, 0, 0], [0, -2, 0], [0, 0, 0], [-1, 2, 0]], dtype=float)[:, :dim] @ np.eye(dim)
    w = np.arange(1.0, len(pts) + 1)
    case0 = {"exact-nd": True, "lattice": lname, "wrap": wrap}
    with warnings.catch_warnings():
        warnings.simplefilter("ignore")
        g = PeriodicGrid(pts.copy(), w.copy(), lat, wrap=wrap)
    gp = np.asarray(g.points, dtype=float)
    centres = [np.zeros(dim), np.full(dim, 0.5), np.array([0.25, 0.0, 0.5])[:dim], np.array([3.0, -2.5, 0.25])[:dim]]
    for ci, c in enumerate(centres):
        for r in (0.0, 0.25, 0.5, 0.75, 1.0, 1.25, 2.0, 2.5):
            res.count()
            case = dict(case0, centre=ci, radius=r)
            ref = []
            K = int(np.ceil(r + np.abs(gp - c).max())) * 2 + 3
            for n in itertools.product(range(-K, K + 1), repeat=len(lat)):
                t = np.array(n, dtype=float) @ lat
                d2 = np.sum((gp + t - c) ** 2, axis=1)        # exact for dyadic inputs
                for i in np.nonzero(d2 <= r * r)[0]:
                    ref.append((int(i), tuple(float(v) for v in gp[i] + t)))
            ref.sort()
            try:
                with warnings.catch_warnings():
                    warnings.simplefilter("ignore")
                    loc = g.get_localgrid(c.copy(), r)
            except Exception as exc:
                res.violation(f"exact:query:raised:{type(exc).__name__}", f"{lname} wrap={wrap} centre={c.tolist()} radius={r}: {exc}", case)
                continue
            got = sorted((int(i), tuple(float(v) for v in p)) for i, p in zip(np.asarray(loc.indices), np.asarray(loc.points, dtype=float)))
            res.nontrivial()
            if got != ref:
                sig = "images-missing" if len(got) < len(ref) else ("extra-images" if len(got) > len(ref) else "wrong-images")
                res.violation(f"exact:query:{sig}", f"{dim}-D orthogonal dyadic lattice {lname}, wrap={wrap}, centre={c.tolist()}, radius={r}: "
                              f"{len(got)} images, exactly {len(ref)} satisfy |p + n.a - c| <= r (missing {sorted(set(ref) - set(got))[:2]})", case)
            elif len(got) and not np.array_equal(np.asarray(loc.weights), w[np.asarray(loc.indices)]):
                res.violation("exact:query:weights", f"{lname}: local weights are not the parent weights", case)
    return res.as_dict()


class World:
    """E1 world (added after seeded change C11-D was missed): one PeriodicGrid WITH lattice vectors used over a
    history of queries, reassignments of weights / points and in-place edits of the local grid handed out last.
    Every query must answer for the grid's current arrays (brute-force enumeration of images), whatever came before."""

    CONF = {"1d": (1, "nonunit"), "2d": (2, "skew"), "3d2v": (3, "two"), "3d": (3, "neg")}

    def __init__(self, seed, conf="2d", wrap=False):
        from grid.periodicgrid import PeriodicGrid

        self.seed, self.conf, self.wrap = seed, conf, wrap
        self.violations = []
        dim, lname = self.CONF[conf]
        self.dim = dim
        self.rv = LATTICES[dim][lname]
        pts, w = make_points(dim, self.rv, "outside" if wrap else "inside", seed)
        with warnings.catch_warnings():
            warnings.simplefilter("ignore")
            self.grid = PeriodicGrid(pts.copy(), w.copy(), self.rv, wrap=wrap)
        p0 = np.array(self.grid.points, dtype=float)
        self.P = [p0, p0 * 0.8 + 0.05]
        self.W = [w.copy(), w[::-1].copy() * 2.0 + 0.1]
        self.pv = self.wv = 0
        pr = p0.reshape(len(p0), -1)
        cell = min(3.0, float(np.max(np.linalg.norm(np.atleast_2d(self.rv).reshape(-1, dim), axis=1))))
        self.centres = [pr.mean(axis=0), pr[2] + 0.37 * cell, pr.mean(axis=0) + 1e-7]
        self.radii = [0.45 * cell, 1.3 * cell]
        self.last = None
        self.edited = False

    def _bad(self, key, what, **det):
        self.violations.append((f"history:{self.conf}:{key}", what, det))

    def enabled(self):
        evs = [("Q", ci, ri) for ci in (0, 1, 2) for ri in (0, 1)] + [("SW",)]
        if not self.wrap:
            evs.append(("SP",))
            if self.pv == 0:
                evs.append(("SPA",))     # grid.points *= 0.8; grid.points += 0.05 (augmented assignment through the setter)
        if self.wv == 0:
            evs.append(("SWA",))
        if self.last is not None and not self.edited:
            evs.append(("EL",))
        return evs

    def apply(self, ev):
        g = self.grid
        with warnings.catch_warnings():
            warnings.simplefilter("ignore")
            if ev[0] == "Q":
                c, r = self.centres[ev[1]], self.radii[ev[2]]
                cc = np.float64(c[0]) if self.dim == 1 else c.copy()
                loc = g.get_localgrid(cc, r)
                P, W = self.P[self.pv], self.W[self.wv]
                ref, ties = brute(P, W, self.rv, c, r)
                li = np.asarray(loc.indices)
                lp = np.asarray(loc.points, dtype=float).reshape(len(li), -1) if len(li) else np.zeros((0, self.dim))
                got = sorted((int(i), tuple(np.round(p, 9) + 0.0)) for i, p in zip(li, lp))
                if not ties:
                    if got != ref:
                        self._bad("Q:wrong-images", f"{len(got)} images returned, brute force on the current points finds {len(ref)}")
                    elif len(li) and not np.array_equal(np.asarray(loc.weights), W[li]):
                        self._bad("Q:weights-not-current-parent-weights", "local weights are not the current parent weights of the indices")
                if not (np.array_equal(g.points, P) and np.array_equal(g.weights, W)):
                    self._bad("Q:grid-modified", "a query changed the grid's points or weights")
                if not np.array_equal(np.asarray(loc.center), np.asarray(cc)):
                    self._bad("Q:center-not-echoed", "the local grid does not carry the centre of this query")
                self.last, self.edited = (ev[1], ev[2], loc), False
                return ("Q", len(li))
            if ev[0] == "EL":
                loc = self.last[2]
                try:
                    np.asarray(loc.weights)[...] *= 3.0
                    np.asarray(loc.points)[...] += 0.7
                    np.asarray(loc.indices)[...] = 0
                except ValueError:
                    pass
                self.edited = True
                if not (np.array_equal(g.points, self.P[self.pv]) and np.array_equal(g.weights, self.W[self.wv])):
                    self._bad("EL:parent-changed", "editing a local grid in place changed the parent grid")
                return ("EL",)
            if ev[0] == "SPA":
                g.points *= 0.8
                g.points += 0.05
                self.pv = 1
                self.P[1] = np.array(g.points, dtype=float) if np.allclose(g.points, self.P[1], rtol=1e-14, atol=1e-15) else self.P[1]
            elif ev[0] == "SWA":
                g.weights *= 1.0
                g.weights = g.weights[::-1] * 2.0 + 0.1
                self.wv = 1
            elif ev[0] == "SW":
                self.wv = 1 - self.wv
                g.weights = self.W[self.wv].copy()
            else:
                self.pv = 1 - self.pv
                g.points = self.P[self.pv].copy()
            if not (np.array_equal(g.points, self.P[self.pv]) and np.array_equal(g.weights, self.W[self.wv])):
                self._bad(f"{ev[0]}:state-mismatch", "after the assignment the grid does not hold the assigned arrays")
            return (ev[0], self.pv, self.wv)

    def canon(self):
        tree = getattr(self.grid, "_kdtree", None)
        tv = "none"
        if tree is not None:
            # (whatever object the class keeps there: only a plain tree exposes the array it indexes)
            data = np.asarray(getattr(tree, "data", np.zeros(0)))
            tv = "other"
            for k, p in enumerate(self.P):
                if data.shape == p.reshape(len(p), -1).shape and np.array_equal(data, p.reshape(len(p), -1)):
                    tv = k
        return (self.conf, self.wrap, self.pv, self.wv, tv, None if self.last is None else self.last[:2], self.edited)


def integer_points(ctx):
    """The grid's own POINT array in an integer dtype (a lattice of whole numbers), lattice vectors that are not whole numbers,
    centres with a fractional part: the answer is that of the same points in floats and of the brute-force image search
    (the dtype of the object's own arrays, lesson 20; wrap off -- wrapping integer points by fractional vectors has no
    integer answer)."""
    import itertools as it

    from grid.periodicgrid import PeriodicGrid

    rng = np.random.default_rng([ctx.seed, 97])
    sets = {1: np.arange(6), 2: np.array(list(it.product(range(3), range(4)))), 3: np.array(list(it.product(range(3), repeat=3)))}
    vecs = {1: np.array([6.5]), 2: np.array([[3.5, 0.0], [0.5, 4.25]]), 3: np.array([[3.5, 0.0, 0.0], [0.0, 3.25, 0.5], [0.25, 0.0, 3.75]])}
    for dim, pts in sets.items():
        w = rng.uniform(0.1, 1.0, len(pts))
        for dt in (np.int64, np.int32):
            with warnings.catch_warnings():
                warnings.simplefilter("ignore")
                try:
                    gi = PeriodicGrid(pts.astype(dt), w.copy(), vecs[dim], wrap=False)
                    gf = PeriodicGrid(pts.astype(float), w.copy(), vecs[dim], wrap=False)
                except Exception as exc:
                    ctx.violation(f"integer-points:construct:raised:{type(exc).__name__}", f"PeriodicGrid(integer points, dim {dim}): {exc}", {"route": "integer-points"})
                    continue
                for c in ([0.5, 1.5, 2.25], [2.75, 0.25, 0.5], [7.25, -3.5, 1.75]):
                    cen = np.float64(c[0]) if dim == 1 else np.array(c[:dim])
                    for r in (0.6, 1.3, 2.2, 4.1):
                        ctx.count(section="integer-points")
                        case = {"route": "integer-points", "dim": dim, "dtype": np.dtype(dt).name, "centre": c[:dim], "radius": r}
                        try:
                            a, b = gi.get_localgrid(cen, r), gf.get_localgrid(cen, r)
                        except Exception as exc:
                            ctx.violation(f"integer-points:raised:{type(exc).__name__}", f"dim {dim}: get_localgrid({c[:dim]}, {r}): {exc}", case)
                            continue
                        ref, ties = brute(pts.astype(float), w, vecs[dim], np.atleast_1d(np.asarray(cen, dtype=float)), r)
                        if ties:
                            ctx.inadm(section="integer-points")
                            continue
                        ctx.nontrivial(("integer-points", dim, np.dtype(dt).name, tuple(c[:dim]), r), section="integer-points")
                        key = lambda loc: sorted((int(i), tuple(np.round(np.atleast_1d(np.asarray(q, dtype=float)), 9) + 0.0)) for i, q in zip(np.asarray(loc.indices), np.asarray(loc.points)))
                        if key(b) != ref:
                            ctx.violation("integer-points:float-copy:wrong-images", f"dim {dim}: float points, centre {c[:dim]}, radius {r}: {len(key(b))} images, brute force {len(ref)}", case)
                        if key(a) != key(b):
                            ctx.violation("integer-points:differs-from-float-points", f"dim {dim}: points as {np.dtype(dt).name}, centre {c[:dim]}, radius {r}: "
                                          f"{len(key(a))} images, the same points in floats give {len(key(b))} (or other positions)", case)


def run(ctx):
    from vf import explore

    ctx.guarded("integer-points", integer_points, ctx)

    for conf in World.CONF:
        for wrap in (False, True):
            st = explore.explore(ctx, "vf.props.c11:World", 4 if ctx.thorough else 3, params={"conf": conf, "wrap": wrap},
                                 twice_every=7, fresh_every=0, section=f"history:{conf}")
    ctx.cov["history_depth"] = 4 if ctx.thorough else 3
    for res in lattice.pmap(_exact_case, [(a, wr, ctx.seed) for a in (1.0, 0.5, 2.0, -1.0, -0.5) for wr in (False, True)], ctx.workers):
        ctx.merge(res)
    nd = [(ln, wr, ctx.seed) for ln in ("sq2", "rect2", "one2", "neg2", "cube3", "box3", "two3", "neg3") for wr in (False, True)]
    for res in lattice.pmap(_exact_nd_case, nd, ctx.workers):
        ctx.merge(res)
    jobs = []
    for dim, menu in LATTICES.items():
        for lname in menu:
            for wrap in (False, True):
                for pk in POINTSETS:
                    if menu[lname] is None and (pk != "inside"):
                        continue
                    if pk == "far-orth" and (menu[lname] is None or len(np.atleast_2d(menu[lname])) >= dim or dim == 1):
                        continue
                    jobs.append((dim, lname, wrap, pk, ctx.seed))
    for res in lattice.pmap(_case, jobs, ctx.workers, chunksize=2):
        if len(ctx.samples) > 8:
            res["samples"] = []
        ctx.merge(res)
    ctx.cov["configurations"] = len(jobs)
    ctx.exhaustive = True


def replay(ctx, case):
    if "history" in case and isinstance(case["history"], list):
        from vf import explore

        return explore.replay_history(ctx, case)
    if case.get("route") == "integer-points":
        return integer_points(ctx)
    if case.get("exact-nd"):
        return ctx.merge(_exact_nd_case((case["lattice"], case["wrap"], ctx.seed)))
    if case.get("exact"):
        ctx.merge(_exact_case((case["a"], case["wrap"], ctx.seed)))
        return
    ctx.merge(_case((case["dim"], case["lattice"], case["wrap"], case["points"], ctx.seed)))
