"""C03 -- radial transforms are analytically self-consistent for all parameters.

Engine E2: complete product  class x parameter alphabet x 9 interior points x call form, for the
11 concrete classes and ``InverseRTransform`` of each.  Oracle: forward map re-typed from the
class docstring in mpmath (40 digits), r', r'', r''' by ``mp.diff``; inverse derivatives from the
inverse-function identities applied to the oracle's derivatives; strict monotonicity along the
ordered lattice; reference end points -> codomain end points (inf <-> exactly 1e16 iff trimming
is on).

Readings (DESIGN 3.0): "scalar" = NumPy scalar; plain Python floats are exercised and reported as
an observation only.  VERIF_SEED perturbs parameters (<= 3 %) and points inside their boxes.
"""

from __future__ import annotations

import itertools
import warnings

import mpmath as mp
import numpy as np

from vf import lattice
from vf.cli import WorkerResult
from vf.oracles import rtf

LEVEL = "exploration"
RULE = (
    "complete product transform class x parameter alphabet x interior points x call form "
    "(array / length-1 array / NumPy scalar); one evaluation = one (method, point) comparison "
    "with the mpmath oracle; distinct non-trivial = distinct (class, parameters, method, point) "
    "with a finite oracle value"
)
ASSUMPTIONS = [
    "mpmath evaluation of the docstring formulas and mp.diff at 40 digits are exact to 1e-25",
    "relative tolerance 2e-9 (+ natural scale of lower derivatives) counts as rounding",
]

RTOL = 2e-9
# Near the lower end of [-1, 1] several maps evaluate r - rmin or 1 - exp(-t) for tiny values:
# that cancellation is floating-point conditioning, not a wrong formula.  Points with
# |x| > NEAR_END are therefore compared with the loose tolerance RTOL_NEAR (still catching wrong
# powers / factors that only show near the ends); all other points with RTOL.
RTOL_NEAR = 5e-2
NEAR_END = 0.95
PTS_PM1 = (-0.999, -0.9, -0.7, -0.5, -0.1, 0.0, 0.3, 0.7, 0.9, 0.99)
FRACS = (0.004, 0.05, 0.2, 0.35, 0.5, 0.65, 0.8, 0.93, 0.995)
RMINS = (0.0, 1e-3, 0.1)
RS = (0.5, 1.5, 5.0)
INTERVALS = ((0.0, 1.0), (0.2, 3.0), (1e-3, 20.0))
POS_INTERVALS = ((0.2, 3.0), (1e-3, 20.0), (1e-5, 150.0))
BS = (5.0, 29.0)
KS = (1, 2, 2.5, 3, 4, 0.5, 0.75)
MS = (1, 1.5, 2, 3, 4, 5, 0.5)
TRIM = (True, False)


def configs():
    """All (class name, params) of the alphabet, simplest first."""
    out = []
    for rmin, R, t in itertools.product(RMINS, RS, TRIM):
        out.append(("BeckeRTransform", {"rmin": rmin, "R": R, "trim_inf": t}))
    for a, b in INTERVALS:
        out.append(("LinearFiniteRTransform", {"rmin": a, "rmax": b}))
    out.append(("IdentityRTransform", {}))
    for (a, b), bb in itertools.product(INTERVALS, BS):
        out.append(("LinearInfiniteRTransform", {"rmin": a, "rmax": b, "b": bb}))
    for (a, b), bb in itertools.product(POS_INTERVALS, BS):
        out.append(("ExpRTransform", {"rmin": a, "rmax": b, "b": bb}))
        out.append(("PowerRTransform", {"rmin": a, "rmax": b, "b": bb}))
    for a, b in ((1.0, 1e-3), (2.5, 0.01)):
        out.append(("HyperbolicRTransform", {"a": a, "b": b}))
    for rmin, R, t in itertools.product(RMINS, RS, TRIM):
        out.append(("MultiExpRTransform", {"rmin": rmin, "R": R, "trim_inf": t}))
    for rmin, R, k, t in itertools.product(RMINS, RS, KS, TRIM):
        out.append(("KnowlesRTransform", {"rmin": rmin, "R": R, "k": k, "trim_inf": t}))
    for rmin, R, m, t in itertools.product(RMINS, RS, MS, TRIM):
        out.append(("HandyRTransform", {"rmin": rmin, "R": R, "m": m, "trim_inf": t}))
    for rmin, m, extra, t in itertools.product(RMINS, MS, (0.7, 15.0), TRIM):
        # admissible: rmax - rmin > 2^m - 1 (otherwise the map has a pole inside [-1, 1])
        out.append(("HandyModRTransform", {"rmin": rmin, "rmax": rmin + 2**m - 1 + extra, "m": m, "trim_inf": t}))
    return out


def perturb(name, p, seed):
    """Seed-dependent representative inside the parameter box (seed 0: the lattice itself)."""
    q = dict(p)
    for k, v in p.items():
        if k in ("trim_inf", "k", "m") or not isinstance(v, float) or v == 0.0:
            continue
        q[k] = v * (1 + lattice.jitter(seed, f"{name}:{k}:{sorted(p.items())}", 0.0, 0.03))
    if name == "HandyModRTransform" and q["rmax"] - q["rmin"] <= 2 ** q["m"] - 1 + 0.1:
        q["rmax"] = q["rmin"] + 2 ** q["m"] - 1 + 0.1
    return q


def points_for(name, p, seed):
    if name in ("BeckeRTransform", "LinearFiniteRTransform", "MultiExpRTransform", "KnowlesRTransform",
                "HandyRTransform", "HandyModRTransform"):
        base = [lattice.jitter(seed, f"pt{i}", x, 0.0005 if abs(x) > 0.95 else 0.04) for i, x in enumerate(PTS_PM1)]
        return sorted(base), (-1.0, 1.0)
    if name == "IdentityRTransform":
        return [0.01, 0.5, 1.0, 3.0, 10.0, 100.0, 1e4, 1e6, 1e9], (0.0, np.inf)
    if name == "HyperbolicRTransform":
        top = 1.0 / p["b"]
    else:
        top = p["b"]
    return sorted(lattice.jitter(seed, f"fr{i}", f, 0.003) * top for i, f in enumerate(FRACS)), (0.0, top)


def build(name, p):
    import grid.rtransform as rt

    return getattr(rt, name)(**p)


def _close(got, ref, scale, rtol=RTOL):
    return abs(got - ref) <= rtol * (abs(ref) + scale) + 1e-300


def _case(arg):
    name, p0, seed, inverse = arg
    res = WorkerResult(section=("Inverse:" if inverse else "") + name)
    p = perturb(name, p0, seed)
    tag = ("Inverse(" + name + ")") if inverse else name
    pkey = ",".join(f"{k}={p0[k]}" for k in sorted(p0))
    case = {"class": name, "params": p0, "inverse": inverse}
    mp.mp.dps = rtf.DPS
    oracle_p = {k: v for k, v in p.items() if k != "trim_inf"}
    f = rtf.forward(name, oracle_p)
    xs, (lo, hi) = points_for(name, p, seed)
    from grid.rtransform import InverseRTransform

    with warnings.catch_warnings():
        warnings.simplefilter("ignore")
        try:
            tf = build(name, p)
            if inverse:

                tf = InverseRTransform(build(name, p))
        except Exception as exc:
            res.count()
            res.violation(f"{tag}:construct:{type(exc).__name__}", f"{tag}({p}) raised {exc}", case)
            return res.as_dict()
        # oracle table.  Forward-type methods are compared at the lattice point x; methods whose
        # argument lives in the image are called with the float64 number r = fl(f(x)), and their
        # reference is taken at the exact pre-image x* of *that float* (root finding at 40
        # digits) -- otherwise the rounding of r, amplified by the conditioning of the inverse
        # near the ends of the domain, would be blamed on the library.
        table, table_img = [], []
        for x in xs:
            r0, r1, r2, r3 = rtf.derivs(f, x)
            i1, i2, i3 = rtf.inverse_derivs(r1, r2, r3)
            table.append([float(v) for v in (x, r0, r1, r2, r3, i1, i2, i3)])
            rfl = float(r0)
            try:
                xs_star = mp.findroot(lambda t, _r=mp.mpf(rfl): f(t) - _r, mp.mpf(x), tol=mp.mpf("1e-34"),
                                      maxsteps=60)
                if abs(xs_star - x) > 1e-6 * (1 + abs(x)) or not (lo < xs_star < hi):
                    raise ValueError("image point not interior after rounding")
                q0, q1, q2, q3 = rtf.derivs(f, xs_star)
                j1, j2, j3 = rtf.inverse_derivs(q1, q2, q3)
                table_img.append([float(v) for v in (xs_star, rfl, q1, q2, q3, j1, j2, j3)])
            except Exception:
                table_img.append([np.nan, rfl] + [np.nan] * 6)
        tab = np.array(table)
        timg = np.array(table_img)
        X, R0, R1, R2, R3, I1, I2, I3 = tab.T
        Xs, Rf, Q1, Q2, Q3, J1, J2, J3 = timg.T
        ab = np.abs
        if inverse:
            # the wrapper maps r -> x: its forward-type methods take the image float r
            arg_pts = Rf
            refs = {"transform": Xs, "deriv": J1, "deriv2": J2, "deriv3": J3,
                    # the wrapper's *_inverse methods go x -> fl(r) -> derivative: they are
                    # referred to the exact pre-image of that float (same conditioning argument)
                    "inverse": R0, "deriv_inverse": Q1, "deriv2_inverse": Q2, "deriv3_inverse": Q3}
            back_arg = X
            scales = {"transform": ab(Xs) + 1e-3, "deriv": ab(J1), "deriv2": ab(J2) + ab(J1),
                      "deriv3": ab(J3) + ab(J2) + ab(J1), "inverse": ab(R0) + 1e-3, "deriv_inverse": ab(Q1),
                      "deriv2_inverse": ab(Q2) + ab(Q1), "deriv3_inverse": ab(Q3) + ab(Q2) + ab(Q1)}
        else:
            arg_pts = X
            refs = {"transform": R0, "deriv": R1, "deriv2": R2, "deriv3": R3,
                    "inverse": Xs, "deriv_inverse": J1, "deriv2_inverse": J2, "deriv3_inverse": J3}
            back_arg = Rf
            scales = {"transform": ab(R0) + 1e-3, "deriv": ab(R1), "deriv2": ab(R2) + ab(R1),
                      "deriv3": ab(R3) + ab(R2) + ab(R1), "inverse": ab(Xs) + 1e-3, "deriv_inverse": ab(J1),
                      "deriv2_inverse": ab(J2) + ab(J1), "deriv3_inverse": ab(J3) + ab(J2) + ab(J1)}
        # which argument each method takes: x-like or r-like
        takes_image = ("inverse", "deriv_inverse", "deriv2_inverse", "deriv3_inverse")

        def call(meth, arr):
            with np.errstate(all="ignore"):
                return getattr(tf, meth)(arr)

        for meth in ("transform", "deriv", "deriv2", "deriv3", "inverse", "deriv_inverse",
                     "deriv2_inverse", "deriv3_inverse"):
            a = np.array(back_arg if meth in takes_image else arg_pts, dtype=float)
            ref = refs[meth]
            sc = scales[meth]
            Xm = X
            # image points that are no longer interior after rounding to float64 (r == rmin: the pre-image is the end point
            # itself, where the map's slope vanishes and the inverse-type methods refuse with ZeroDivisionError) are not part
            # of "the interior of the domain": they are left out of the array call and counted as inadmissible.  (False
            # alarm for seeds >= 6, where the jitter moves x = -0.999 to -0.9995 and (1 + x)^5 underflows against rmin.)
            valid = np.isfinite(ref)
            if not np.all(valid):
                res.count(int(np.sum(~valid)))
                res.inadm(int(np.sum(~valid)))
                a, ref, sc, Xm = a[valid], ref[valid], np.asarray(sc)[valid], X[valid]
                if len(a) == 0:
                    continue
            try:
                keep = a.copy()
                got = np.asarray(call(meth, a), dtype=float)
            except Exception as exc:
                res.count()
                res.violation(f"{tag}:{meth}:raised:{type(exc).__name__}",
                              f"{tag}({pkey}).{meth}(array) raised {type(exc).__name__}: {exc}", case)
                continue
            if not np.array_equal(a, keep):
                res.violation(f"{tag}:{meth}:argument-modified", f"{tag}.{meth} modified its argument", case)
            if got.shape != a.shape:
                res.count()
                res.violation(f"{tag}:{meth}:shape", f"{tag}({pkey}).{meth} returned shape {got.shape} for {a.shape}", case)
                continue
            for i in range(len(a)):
                res.count()
                if not np.isfinite(ref[i]):
                    res.inadm()
                    continue
                res.nontrivial()
                near = (lo, hi) == (-1.0, 1.0) and abs(Xm[i]) > NEAR_END
                if not _close(got[i], ref[i], sc[i], RTOL_NEAR if near else RTOL):
                    rel = abs(got[i] - ref[i]) / (abs(ref[i]) + 1e-300)
                    bucket = "tiny" if rel < 1e-6 else ("small" if rel < 1e-2 else "gross")
                    res.violation(
                        f"{tag}:{meth}:differs-from-true-value:{bucket}",
                        f"{tag}({pkey}).{meth} at {'r' if meth in takes_image else 'x'}={a[i]:.6g}: got {got[i]:.12g}, "
                        f"true {ref[i]:.12g} (rel {rel:.2e})",
                        dict(case, method=meth, point=float(a[i])), got=float(got[i]), expected=float(ref[i]))
                if not near:
                    res.maximum(f"rel_err:{meth}", abs(got[i] - ref[i]) / (abs(ref[i]) + sc[i] + 1e-300))
            # call forms: NumPy scalar and length-1 array must agree with the array result
            for form in ("np.float64", "len1"):
                res.count()
                j = len(a) // 2
                arg1 = np.float64(a[j]) if form == "np.float64" else np.array([a[j]])
                try:
                    g1 = np.asarray(call(meth, arg1), dtype=float).reshape(-1)
                    okform = g1.size == 1 and (g1[0] == got[j] or _close(g1[0], got[j], sc[j]))
                    if not okform:
                        res.violation(f"{tag}:{meth}:{form}:differs-from-array-call",
                                      f"{tag}.{meth}({form}) = {g1} but array call gives {got[j]}", case)
                except Exception as exc:
                    res.violation(f"{tag}:{meth}:{form}:raised:{type(exc).__name__}",
                                  f"{tag}({pkey}).{meth}({form}) raised {type(exc).__name__}: {exc}", case)
            # integer-dtype arrays (what UniformInteger hands to these maps): same values as the float call
            if not inverse and meth in ("transform", "deriv", "deriv2", "deriv3") and name != "HyperbolicRTransform" \
                    and ((lo, hi) != (-1.0, 1.0) or name == "LinearFiniteRTransform"):
                res.count()
                # (on [-1, 1] the whole numbers are the end points and the middle: only the linear map, which is finite there and has no integer powers)
                ints = np.arange(1, 5) if (lo, hi) != (-1.0, 1.0) else np.array([-1, 0, 1])
                keep_i = ints.copy()
                try:
                    gi = np.asarray(call(meth, ints), dtype=float)
                    gf = np.asarray(call(meth, ints.astype(float)), dtype=float)
                    if gi.shape != gf.shape or not np.allclose(gi, gf, rtol=1e-13, atol=0, equal_nan=False):
                        res.violation(f"{tag}:{meth}:int-array:differs-from-float-array",
                                      f"{tag}({pkey}).{meth}(integer array) = {gi} but the float array gives {gf}", case)
                    if not np.array_equal(ints, keep_i) or ints.dtype != keep_i.dtype:
                        res.violation(f"{tag}:{meth}:int-array:argument-modified", f"{tag}.{meth} modified its integer argument", case)
                except Exception as exc:
                    res.violation(f"{tag}:{meth}:int-array:raised:{type(exc).__name__}",
                                  f"{tag}({pkey}).{meth}(integer array) raised {type(exc).__name__}: {exc}", case)
            try:  # plain Python float: observation only (docstrings type the argument as ndarray)
                call(meth, float(a[len(a) // 2]))
            except Exception as exc:
                res.note(f"observation (not counted): {tag}.{meth}(python float) raises {type(exc).__name__}")
        # histories on one instance with one work array refilled in place (added after seeded change C03-D: an
        # identity-keyed memo inside the Inverse wrapper): m1(buf); buf[:] = other points; m2(buf) must equal what a
        # fresh instance returns for a fresh copy of those points.  All ordered pairs of methods.
        all_m = ("transform", "deriv", "deriv2", "deriv3", "inverse", "deriv_inverse", "deriv2_inverse", "deriv3_inverse")
        try:
            fresh = build(name, p)
            if inverse:
                fresh = InverseRTransform(build(name, p))
            ok_all = np.ones(len(X), dtype=bool)
            for m in all_m:
                ok_all &= np.isfinite(refs[m])        # (interior image points only, see above)
            second = {m: np.array(back_arg if m in takes_image else arg_pts, dtype=float)[ok_all][::-1].copy() for m in all_m}
            with np.errstate(all="ignore"):
                want2 = {m: np.asarray(getattr(fresh, m)(second[m].copy()), dtype=float) for m in all_m}
            for m1, m2 in itertools.product(all_m, repeat=2):
                res.count()
                buf = np.array(back_arg if m1 in takes_image else arg_pts, dtype=float)[ok_all]
                call(m1, buf)
                buf[:] = second[m2]
                got2 = np.asarray(call(m2, buf), dtype=float)
                res.nontrivial()
                if got2.shape != want2[m2].shape or not np.array_equal(got2, want2[m2], equal_nan=True):
                    res.violation(f"{tag}:history:{m2}:stale-after-in-place-refill",
                                  f"{tag}({pkey}): {m1}(buf); buf[:] = new points; {m2}(buf) differs from {m2} of a fresh instance "
                                  f"on a fresh copy of the same points", dict(case, history=[m1, "refill", m2]))
                    break
        except Exception as exc:
            res.violation(f"{tag}:history:raised:{type(exc).__name__}", f"{tag}({pkey}): {type(exc).__name__}: {exc} in the refill history", case)
        # monotonicity along the ordered lattice
        res.count()
        try:
            img = np.asarray(call("transform", np.array(arg_pts, dtype=float)), dtype=float)
            order = np.argsort(arg_pts)
            d = np.diff(img[order])
            d = d[np.diff(np.asarray(arg_pts)[order]) > 0]
            if not (np.all(d > 0) or np.all(d < 0)):
                res.violation(f"{tag}:not-monotone", f"{tag}({pkey}).transform is not strictly monotone on the lattice", case)
            else:
                res.nontrivial()
        except Exception:
            pass
        # end points (forward classes only; the Inverse wrapper maps the codomain ends back)
        _endpoints(res, tf, tag, name, p, pkey, inverse, case)
    res.sample({"class": tag, "params": p, "points": [float(v) for v in arg_pts[:3]]})
    return res.as_dict()


def _endpoints(res, tf, tag, name, p, pkey, inverse, case):
    inf = np.inf
    trim = p.get("trim_inf", None)
    big = 1e16
    if name in ("BeckeRTransform", "KnowlesRTransform", "HandyRTransform"):
        ends = {-1.0: p["rmin"], 1.0: inf}
    elif name == "MultiExpRTransform":
        ends = {-1.0: inf, 1.0: p["rmin"]}
    elif name in ("LinearFiniteRTransform", "HandyModRTransform"):
        ends = {-1.0: p["rmin"], 1.0: p["rmax"]}
    elif name == "IdentityRTransform":
        ends = {0.0: 0.0}
    elif name == "HyperbolicRTransform":
        ends = {0.0: 0.0}
    else:
        ends = {0.0: p["rmin"], p["b"]: p["rmax"]}
    for x, r in ends.items():
        res.count()
        if inverse:
            if not np.isfinite(r):
                continue
            try:
                with np.errstate(all="ignore"):
                    got = float(np.asarray(tf.transform(np.array([r])), dtype=float)[0])
            except Exception as exc:
                res.violation(f"{tag}:endpoint:raised:{type(exc).__name__}", f"{tag}({pkey}).transform([{r}]) raised {exc}", case)
                continue
            want = x
        else:
            try:
                with np.errstate(all="ignore"):
                    got = float(np.asarray(tf.transform(np.array([x])), dtype=float)[0])
            except Exception as exc:
                res.violation(f"{tag}:endpoint:raised:{type(exc).__name__}", f"{tag}({pkey}).transform([{x}]) raised {exc}", case)
                continue
            want = r
            if not np.isfinite(r):
                want = big if trim else inf
        # the NumPy-scalar call form goes through the scalar branch of the infinity trimming: same image
        try:
            with np.errstate(all="ignore"):
                sc = float(np.asarray(tf.transform(np.float64(r if inverse else x)), dtype=float).reshape(-1)[0])
            if not (sc == got or abs(sc - got) <= 1e-12 * (1 + abs(got))):
                res.violation(f"{tag}:endpoint:scalar-form-differs", f"{tag}({pkey}).transform(np.float64({r if inverse else x})) = {sc}, "
                              f"the array form gives {got}", case)
        except Exception as exc:
            res.violation(f"{tag}:endpoint:scalar-form:raised:{type(exc).__name__}", f"{tag}({pkey}).transform(np.float64 end point) raised {exc}", case)
        res.nontrivial()
        ok = (got == want) if not np.isfinite(want) or want == big else abs(got - want) <= 1e-9 * (1 + abs(want))
        if not ok:
            res.violation(f"{tag}:endpoint:wrong-image",
                          f"{tag}({pkey}): reference end point {r if inverse else x} is mapped to {got}, expected {want}"
                          + (" (trimming on: +inf is represented by exactly 1e16)" if want == big else ""), case)
    # declared domain / codomain
    res.count()
    dom, cod = tf.domain, tf.codomain
    lo_hi = {
        "BeckeRTransform": ((-1, 1), (p.get("rmin"), inf)), "KnowlesRTransform": ((-1, 1), (p.get("rmin"), inf)),
        "HandyRTransform": ((-1, 1), (p.get("rmin"), inf)), "MultiExpRTransform": ((-1, 1), (p.get("rmin"), inf)),
        "LinearFiniteRTransform": ((-1, 1), (p.get("rmin"), p.get("rmax"))),
        "HandyModRTransform": ((-1, 1), (p.get("rmin"), p.get("rmax"))),
        "IdentityRTransform": ((0, inf), (0, inf)), "HyperbolicRTransform": ((0, inf), (0, inf)),
        "LinearInfiniteRTransform": ((0, inf), (p.get("rmin"), p.get("rmax"))),
        "ExpRTransform": ((0, inf), (p.get("rmin"), p.get("rmax"))),
        "PowerRTransform": ((0, inf), (p.get("rmin"), p.get("rmax"))),
    }[name]
    want_dom, want_cod = (lo_hi[1], lo_hi[0]) if inverse else lo_hi
    if tuple(dom) != tuple(want_dom) or tuple(cod) != tuple(want_cod):
        res.violation(f"{tag}:declared-domain", f"{tag}({pkey}) declares domain {dom} codomain {cod}, expected {want_dom} {want_cod}", case)


def run(ctx):
    ctx.cov["oracle_selftest_inverse_identities"] = rtf.selftest()
    cfgs = configs()
    jobs = [(n, p, ctx.seed, inv) for n, p in cfgs for inv in (False, True)]
    for res in lattice.pmap(_case, jobs, ctx.workers, chunksize=4):
        if len(ctx.samples) > 8:
            res["samples"] = []
        ctx.merge(res)
    ctx.cov["configurations"] = len(jobs)
    ctx.cov["tolerance_rel"] = RTOL
    ctx.exhaustive = True


def replay(ctx, case):
    ctx.merge(_case((case["class"], case["params"], ctx.seed, case["inverse"])))
