"""C07 -- a molecular grid is the weighted concatenation of its atomic grids.

Engine E2 (deviation-bounded product; bound 2 quick, 3 thorough) over
  molecule (1-4 atoms, elements {1,6,8,17}) x constructor {direct, from_size, from_preset,
  from_pruned} x radial spec {one grid, per-atom list, per-element dict, default} x aim weights
  {Becke callable, Hirshfeld callable, precomputed array} x store {off, on} x rotate {0, 37}.
Oracle: the atomic grids built by hand with the same arguments, concatenated by the check;
weights = atomic weights x aim weights evaluated by the check on the concatenation; molecular
integral = sum_A atomic integral of w_A f; points / weights / integrals / get_atomic_grid(i) / grid[i]
identical for store on and off.

End-to-end clause (complete product): 17 presets x 8 molecules (1-5 atoms, min distance >= 1.2
bohr, incl. asymmetric) x exponents {0.3, 1, 3, 10, 30}: a preset molecular grid with the default
*kind* of radial grid (Power transform of the uniform-integer grid with the element's tabulated
range; at the size the preset prescribes where it prescribes one) integrates a sum of normalised
atom-centred Gaussians to its total charge within 1 %.
"""

from __future__ import annotations

import itertools
import warnings

import numpy as np

from vf import lattice
from vf.cli import WorkerResult


def _gt(a, b):
    """a > b that is also True when a is NaN (a silent NaN must never pass a tolerance test)."""
    return ~(np.asarray(a) <= np.asarray(b))


LEVEL = "exploration"
RULE = (
    "deviation-bounded product of molecule x constructor x radial spec x aim weights x store x "
    "rotate (structural clause) and complete product preset x molecule x exponent (end-to-end); "
    "one evaluation = one compared array / integral; distinct non-trivial = distinct configuration"
)
ASSUMPTIONS = [
    "AtomGrid (C05) and BeckeWeights/HirshfeldWeights (C06) are the building blocks, decided by their own checks",
    "'default radial grids' = the library's default kind at the size the preset prescribes (DESIGN 3.0)",
]

BOHR = 1.8897261246257702
MOLS = {   # the first entry is the baseline of the deviation-bounded product: heteronuclear on purpose
    # (atomic numbers NOT in ascending order: a constructor that regroups atoms by element must show; seeded change C07-F)
    "CO": ([8, 6], [[0.0, 0.0, -1.1], [0.0, 0.1, 1.05]]),
    "H": ([1], [[0.0, 0.0, 0.0]]),
    "HCl": ([17, 1], [[0.2, 0.0, 0.0], [0.2, 0.3, 2.4]]),
    "H2O": ([8, 1, 1], [[0.0, 0.0, 0.2], [0.0, 1.43, -0.9], [0.1, -1.43, -0.9]]),
    "CH2O": ([6, 8, 1, 1], [[0.0, 0.0, 0.0], [0.0, 0.0, 2.3], [0.0, 1.8, -1.0], [0.3, -1.7, -1.1]]),
}
CTORS = ("direct", "from_size", "from_preset", "from_pruned")
RSPEC = ("one", "list", "dict", "default")
AIM = ("becke", "hirshfeld", "array")
STORE = (False, True)
ROT = (0, 37)


def default_rgrid(z, npt=None):
    from grid.onedgrid import UniformInteger
    from grid.rtransform import PowerRTransform
    from grid.utils import _DEFAULT_POWER_RTRANSFORM_PARAMS as P

    import scipy.constants as sc

    rmin, rmax, n = P[int(z)]
    ang = sc.angstrom / sc.value("atomic unit of length")  # same unit constant (data) the library uses
    with warnings.catch_warnings():
        warnings.simplefilter("ignore")
        return PowerRTransform(rmin * ang, rmax * ang).transform_1d_grid(UniformInteger(int(npt or n)))


def small_rgrid(k):
    from grid.onedgrid import GaussChebyshev, GaussLegendre
    from grid.rtransform import BeckeRTransform

    with warnings.catch_warnings():
        warnings.simplefilter("ignore")
        return BeckeRTransform(1e-4, 1.0 + 0.3 * k).transform_1d_grid((GaussLegendre if k % 2 == 0 else GaussChebyshev)(6 + k))


def _build(cfg, seed):
    """Returns (molgrid, hand-built atomic grids, atnums, atcoords, aim callable/array description)."""
    from grid.atomgrid import AtomGrid
    from grid.becke import BeckeWeights
    from grid.hirshfeld import HirshfeldWeights
    from grid.molgrid import MolGrid

    mname, ctor, rspec, aim, store, rot = cfg
    nums = np.array(MOLS[mname][0], dtype=int)
    coords = np.array(MOLS[mname][1], dtype=float) + lattice.jitter(seed, mname, 0.0, 0.04)
    n = len(nums)
    # radial grids per atom
    per_element = {int(z): small_rgrid(i) for i, z in enumerate(sorted(set(nums.tolist())))}
    if rspec == "one":
        rg_arg, rgs = small_rgrid(1), [small_rgrid(1)] * n
    elif rspec == "list":
        rgs = [small_rgrid(i) for i in range(n)]
        rg_arg = list(rgs)
    elif rspec == "dict":
        rgs = [per_element[int(z)] for z in nums]
        rg_arg = dict(per_element)
    else:
        rgs = [default_rgrid(z) for z in nums]
        rg_arg = None
    with warnings.catch_warnings():
        warnings.simplefilter("ignore")
        if ctor == "direct":
            degs = [[3, 5, 7][: 1 + i % 3] * 3 for i in range(n)]
            hand = [AtomGrid(rgs[i], degrees=[5] if i % 2 else [7], center=coords[i], rotate=rot) for i in range(n)]
            mk = lambda aimw: MolGrid(nums, [AtomGrid(rgs[i], degrees=[5] if i % 2 else [7], center=coords[i], rotate=rot) for i in range(n)],
                                      aimw, store=store)
        elif ctor == "from_size":
            if rspec in ("list", "dict"):
                return None  # from_size documents a single radial grid or the default only
            hand = [AtomGrid(rgs[i], degrees=None, sizes=[26], center=coords[i], rotate=rot) for i in range(n)]
            mk = lambda aimw: MolGrid.from_size(nums, coords, 26, rgrid=rg_arg, aim_weights=aimw, rotate=rot, store=store)
        elif ctor == "from_preset":
            preset = "coarse" if rspec != "dict" else {int(z): ("coarse" if z != 8 else "medium") for z in nums}
            pre_i = [preset if isinstance(preset, str) else preset[int(z)] for z in nums]
            hand = [AtomGrid.from_preset(int(nums[i]), pre_i[i], rgs[i] if rg_arg is not None else None, center=coords[i], rotate=rot)
                    for i in range(n)]
            mk = lambda aimw: MolGrid.from_preset(nums, coords, preset, rgrid=rg_arg, aim_weights=aimw, rotate=rot, store=store)
        else:
            radius = [1.0 + 0.2 * i for i in range(n)]
            r_sec = [[0.5, 1.0, 1.5]] * n
            d_sec = [[3, 7, 5, 3] if i % 2 == 0 else [5, 5, 9, 3] for i in range(n)]
            hand = [AtomGrid.from_pruned(rgs[i], radius[i], r_sectors=r_sec[i], d_sectors=d_sec[i], center=coords[i], rotate=rot)
                    for i in range(n)]
            mk = lambda aimw: MolGrid.from_pruned(nums, coords, radius, r_sec, d_sec, rgrid=rg_arg, aim_weights=aimw, rotate=rot, store=store)
        pts = np.vstack([g.points for g in hand])
        atw = np.hstack([g.weights for g in hand])
        idx = np.concatenate([[0], np.cumsum([g.size for g in hand])])
        if aim == "becke":
            aimw_ref = BeckeWeights(order=3)(pts, coords, nums, idx)
            aim_arg = BeckeWeights(order=3)
        elif aim == "hirshfeld":
            if not set(nums.tolist()) <= {1, 6, 7, 8}:
                return None  # pro-atom files are shipped for H, C, N, O only
            aimw_ref = HirshfeldWeights()(pts, coords, nums, idx)
            aim_arg = HirshfeldWeights()
        else:
            aimw_ref = BeckeWeights(order=2)(pts, coords, nums, idx)
            aim_arg = aimw_ref.copy()
        mg = mk(aim_arg)
    return mg, hand, nums, coords, pts, atw, idx, aimw_ref


def _struct_case(arg):
    cfg, seed = arg
    res = WorkerResult(section=f"structure:{cfg[1]}")
    case = {"route": "structure", "cfg": list(cfg)}
    tag = cfg[1]
    res.count()
    try:
        built = _build(tuple(cfg), seed)
    except Exception as exc:
        res.violation(f"{tag}:raised:{type(exc).__name__}", f"{cfg}: {type(exc).__name__}: {exc}", case)
        return res.as_dict()
    if built is None:
        res.inadm()
        return res.as_dict()
    mg, hand, nums, coords, pts, atw, idx, aimw = built
    res.nontrivial()
    f = np.exp(-0.5 * np.sum((pts - coords[0]) ** 2, axis=1)) + 0.1 * pts[:, 2]
    checks = [
        # (1e-13 relative: the two default-radial-grid code paths multiply / divide the unit constant in a
        # different order, one ulp apart)
        ("points-not-concatenation", np.asarray(mg.points).shape == pts.shape and np.allclose(np.asarray(mg.points), pts, rtol=1e-13, atol=1e-300)),
        ("index-table", np.array_equal(np.asarray(mg.indices), idx)),
        ("atweights-not-atomic-weights", np.asarray(mg.atweights).shape == atw.shape and np.allclose(np.asarray(mg.atweights), atw, rtol=1e-12, atol=1e-300)),
        ("aim-weights", np.allclose(np.asarray(mg.aim_weights), aimw, rtol=0, atol=1e-12)),
        ("weights-not-atomic-times-aim", bool(np.all(np.abs(np.asarray(mg.weights) - atw * aimw) <= 1e-12 * np.abs(atw) + 1e-300))),
        ("atcoords", np.array_equal(np.asarray(mg.atcoords), coords)),
        ("size", mg.size == len(pts)),
    ]
    for name, ok in checks:
        res.count()
        if not ok:
            res.violation(f"{tag}:{name}", f"{cfg}: MolGrid differs from the hand-built atomic grids ({name})", case)
    # integral = sum over atoms of atomic integrals of w_A f
    res.count()
    ref = sum(float(np.sum(hand[a].weights * aimw[idx[a]:idx[a + 1]] * f[idx[a]:idx[a + 1]])) for a in range(len(hand)))
    got = float(mg.integrate(f))
    if _gt(abs(got - ref), 1e-12 * (abs(ref) + float(np.sum(np.abs(atw * aimw * f))))):
        res.violation(f"{tag}:integral-not-sum-of-atomic-integrals", f"{cfg}: {got!r} vs {ref!r}", case)
    # per-atom grids handed back
    for a in range(len(hand)):
        res.count(2)
        ga = mg.get_atomic_grid(a)
        lo, hi = idx[a], idx[a + 1]
        if not (np.allclose(np.asarray(ga.points), pts[lo:hi], rtol=1e-13, atol=1e-300) and np.allclose(np.asarray(ga.weights), atw[lo:hi], rtol=1e-12, atol=1e-300)
                and np.array_equal(np.asarray(ga.center), coords[a])):
            res.violation(f"{tag}:get_atomic_grid-differs", f"{cfg}: get_atomic_grid({a}) is not atom {a}'s grid (points, atomic "
                          f"weights, centre)", dict(case, atom=a))
        gi = mg[a]
        same_pts = np.asarray(gi.points).shape == pts[lo:hi].shape and np.allclose(np.asarray(gi.points), pts[lo:hi], rtol=1e-13, atol=1e-300)
        w_item = np.asarray(gi.weights)
        if not same_pts:
            res.violation(f"{tag}:getitem-points-differ", f"{cfg}: grid[{a}] points are not atom {a}'s points", dict(case, atom=a))
        is_aim = bool(np.all(np.abs(w_item - (atw * aimw)[lo:hi]) <= 1e-12 * np.abs(atw[lo:hi]) + 1e-300))
        is_raw = np.allclose(w_item, atw[lo:hi], rtol=1e-12, atol=1e-300)
        if not (is_aim or is_raw):
            res.violation(f"{tag}:getitem-weights-neither-atomic-nor-molecular", f"{cfg}: grid[{a}] weights", dict(case, atom=a))
    res.sample(case)
    return res.as_dict(), (tuple(cfg), mg.points.tobytes(), mg.weights.tobytes(), float(mg.integrate(f)),
                           [np.asarray(mg[a].weights).tobytes() for a in range(len(hand))])


def structural(ctx):
    alph = [list(MOLS), list(CTORS), list(RSPEC), list(AIM), list(STORE), list(ROT)]
    cfgs = list(lattice.deviations(alph, 3 if ctx.thorough else 2))
    # store on/off partner of every configuration
    allc = sorted({c for c in cfgs} | {c[:4] + (not c[4],) + c[5:] for c in cfgs}, key=repr)
    out = lattice.pmap(_struct_case, [(c, ctx.seed) for c in allc], ctx.workers, chunksize=2)
    store_view = {}
    for item in out:
        if isinstance(item, tuple):
            res, view = item
            store_view[view[0]] = view[1:]
        else:
            res = item
        if len(ctx.samples) > 6:
            res["samples"] = []
        ctx.merge(res)
    # independence of `store`
    getitem_dep = 0
    for cfg, v in store_view.items():
        if cfg[4]:
            continue
        other = store_view.get(cfg[:4] + (True,) + cfg[5:])
        if other is None:
            continue
        ctx.count(section="store-independence")
        ctx.nontrivial(("store", cfg), section="store-independence")
        if v[0] != other[0] or v[1] != other[1] or v[2] != other[2]:
            ctx.violation("store:points-weights-or-integral-depend-on-store", f"{cfg}: grid differs between store=False and store=True",
                          {"route": "structure", "cfg": list(cfg)})
        if v[3] != other[3] and len(v[3]) > 1:
            getitem_dep += 1
    if getitem_dep:
        ctx.violation("store:getitem-weights-depend-on-store",
                      f"MolGrid.__getitem__(i) returns the atom's grid with molecular (aim-weighted) weights when atomic grids are "
                      f"not stored and with raw atomic weights when they are ({getitem_dep} multi-atom configurations); "
                      f"get_atomic_grid(i) is consistent", {"route": "structure-store"})
    ctx.cov["structural_configurations"] = len(allc)


# ------------------------------------------------------------------------------ E1: per-atom views
_VIEW_REF = {}


class ViewWorld:
    """One MolGrid instance; events are the accessors that hand back per-atom grids / integrals.
    Every observation must equal the one a fresh instance gives for the same single call (the
    accessors must not influence each other).  Added after seeded change C07-B was missed."""

    def __init__(self, seed, store=False, ctor="direct"):
        self.seed, self.store, self.ctor = seed, store, ctor
        self.mg = self._make()
        self.violations = []
        self.calls = []

    def _make(self):
        return _build(("H2O", self.ctor, "one", "becke", self.store, 0), self.seed)[0]

    def enabled(self):
        evs = [("get", 0), ("get", 2), ("item", 0), ("item", 2), ("integrate",), ("weights",)]
        if self.store:
            evs.append(("interp",))
        return evs

    def _observe(self, mg, ev):
        with warnings.catch_warnings():
            warnings.simplefilter("ignore")
            if ev[0] == "get":
                g = mg.get_atomic_grid(ev[1])
                return [np.asarray(g.points).tobytes(), np.asarray(g.weights).tobytes()]
            if ev[0] == "item":
                g = mg[ev[1]]
                return [np.asarray(g.points).tobytes(), np.asarray(g.weights).tobytes()]
            if ev[0] == "integrate":
                return [float(mg.integrate(np.exp(-np.sum(mg.points**2, axis=1)))).hex()]
            if ev[0] == "weights":
                return [np.asarray(mg.weights).tobytes(), np.asarray(mg.atweights).tobytes(), np.asarray(mg.aim_weights).tobytes()]
            f = np.exp(-np.sum(mg.points**2, axis=1))
            return [np.asarray(mg.interpolate(f)(np.array([[0.1, 0.2, 0.3], [0.0, 1.0, -0.5]]))).tobytes()]

    def apply(self, ev):
        import hashlib

        obs = self._observe(self.mg, ev)
        key = (self.store, self.ctor, self.seed, tuple(ev))
        if key not in _VIEW_REF:
            _VIEW_REF[key] = self._observe(self._make(), ev)
        if obs != _VIEW_REF[key]:
            self.violations.append((f"views:{ev[0]}:depends-on-earlier-accessor-calls",
                                    f"{ev} after {self.calls} on the same MolGrid(store={self.store}) differs from the same call on a "
                                    f"fresh instance", {}))
        self.calls.append(tuple(ev))
        return hashlib.sha1(b"".join(o if isinstance(o, bytes) else o.encode() for o in obs)).hexdigest()[:12]

    def canon(self):
        """Which accessors have been used (as a set: repeated calls of one accessor are idempotent
        observations) -- the only thing a hidden per-atom cache could key on."""
        return (self.store, self.ctor, tuple(sorted(set(self.calls))))


# ------------------------------------------------------------------------------ end to end
E2E_MOLS = {
    "H": ([1], [[0.0, 0.0, 0.0]]),
    "N2": ([7, 7], [[0.0, 0.0, -1.04], [0.0, 0.0, 1.04]]),
    "HF-close": ([9, 1], [[0.0, 0.0, 0.0], [0.0, 0.0, 1.2]]),
    "H2O": ([8, 1, 1], [[0.0, 0.0, 0.2], [0.0, 1.43, -0.9], [0.1, -1.43, -0.9]]),
    "HCN-linear": ([1, 6, 7], [[0.0, 0.0, -2.0], [0.0, 0.0, 0.0], [0.0, 0.0, 2.2]]),
    "CH3Cl-asym": ([6, 17, 1, 1, 1], [[0.0, 0.0, 0.0], [0.0, 0.0, 3.4], [1.9, 0.0, -0.7], [-1.0, 1.7, -0.7], [-1.0, -1.6, -0.8]]),
    "SO2": ([16, 8, 8], [[0.0, 0.0, 0.0], [0.0, 2.3, 1.4], [0.0, -2.3, 1.4]]),
    "LiH-far": ([3, 1], [[0.0, 0.0, 0.0], [0.3, 0.2, 6.0]]),
    # elements without a tabulated Bragg radius (the default atom-in-molecule weights take the fallback branch of the radius
    # lookup; added after seeded change C07-L, which left nan radii there and halved every weight)
    "HeH": ([2, 1], [[0.0, 0.0, 0.0], [0.0, 0.1, 1.46]]),
    "NeH": ([1, 10], [[0.0, 0.0, 0.0], [0.1, 0.0, 1.9]]),
}
EXPONENTS = (0.3, 1.0, 3.0, 10.0, 30.0)


def _e2e_case(arg):
    preset, mname, seed = arg
    from vf.props.c05 import preset_tables

    # number of radial points the preset prescribes (sum of its per-sector shell counts, read from the data file)
    _get_rgrid_size = lambda preset, z: [int(np.sum(preset_tables(preset)[f"{z}_rad"]))]
    from grid.molgrid import MolGrid
    from vf.props.c05 import COUNT_PRESETS

    res = WorkerResult(section=f"end-to-end:{preset}")
    nums = np.array(E2E_MOLS[mname][0], dtype=int)
    coords = np.array(E2E_MOLS[mname][1], dtype=float) + lattice.jitter(seed, "e2e" + mname, 0.0, 0.03)
    case = {"route": "e2e", "preset": preset, "molecule": mname}
    res.count()
    # The clause "with the default radial grids" applies literally (rgrid=None) to the presets that
    # tabulate sector radii.  Presets that tabulate shell counts prescribe a radial size that never
    # equals the default one, so rgrid=None is (cleanly) refused for them; they are built with the
    # default *kind* of radial grid at the prescribed size and only held to a loose 10 % bound
    # (structural sanity) -- their observed error is reported in the evidence.
    literal = not (preset in COUNT_PRESETS or (preset == "sg_1" and np.any(nums > 18)))
    bound = 0.01 if literal else 0.10
    try:
        with warnings.catch_warnings():
            warnings.simplefilter("ignore")
            if preset in COUNT_PRESETS or (preset == "sg_1" and np.any(nums > 18)):
                rg = {}
                for z in set(nums.tolist()):
                    rg[int(z)] = default_rgrid(z, _get_rgrid_size(preset, int(z))[0])
                mg = MolGrid.from_preset(nums, coords, preset, rgrid=rg)
            else:
                mg = MolGrid.from_preset(nums, coords, preset)
    except Exception as exc:
        res.violation(f"e2e:{preset}:cannot-build:{type(exc).__name__}", f"from_preset({preset!r}) for {mname}: {exc}", case)
        return res.as_dict()
    charges = np.array([1.0 + 0.5 * i for i in range(len(nums))])
    d2 = np.sum((mg.points[:, None, :] - coords[None, :, :]) ** 2, axis=2)
    for alpha in EXPONENTS:
        res.count()
        dens = np.sum(charges[None, :] * (alpha / np.pi) ** 1.5 * np.exp(-alpha * d2), axis=1)
        got = float(mg.integrate(dens))
        rel = abs(got - charges.sum()) / charges.sum()
        res.nontrivial()
        res.maximum(f"rel_err:{preset}" + ("" if literal else ":constructed-rgrid"), rel)
        if rel > bound:
            res.violation(f"e2e:{preset}:total-charge-off-by-more-than-{int(bound * 100)}-percent",
                          f"{preset} grid on {mname}: Gaussians with exponent {alpha} integrate to {got:.6f}, total charge "
                          f"{charges.sum():.3f} (relative error {rel:.3%})", dict(case, alpha=alpha))
    res.sample(dict(case, size=int(mg.size)))
    return res.as_dict()


def forms(ctx):
    """Documented argument forms of the convenience constructors (a single number for radius / d_sectors / s_sectors,
    arrays instead of lists, other sizes, a list of presets, omitted aim_weights and rotate): each must give the
    concatenation of the atomic grids built by hand with the same per-atom arguments."""
    from grid.atomgrid import AtomGrid
    from grid.becke import BeckeWeights
    from grid.molgrid import MolGrid

    nums = np.array(MOLS["H2O"][0])
    coords = np.array(MOLS["H2O"][1]) + lattice.jitter(ctx.seed, "forms", 0.0, 0.04)
    rg = small_rgrid(1)
    rs, ds, ss = [0.5, 1.0, 1.5], [3, 7, 5, 3], [6, 26, 14, 6]
    n = len(nums)

    def pruned(radius_i, dsec=None, ssec=None, rot=0):
        return [AtomGrid.from_pruned(rg, radius_i[i], r_sectors=rs, d_sectors=dsec, s_sectors=ssec, center=coords[i], rotate=rot) for i in range(n)]

    B = lambda: BeckeWeights(order=3)
    # the seed a constructor uses when none is given is whatever its signature declares (the value itself is not part of
    # the property: only that omitted arguments mean the declared defaults)
    import inspect

    DEF = lambda fn: inspect.signature(fn).parameters["rotate"].default
    table = [
        ("from_pruned:float-radius", lambda: MolGrid.from_pruned(nums, coords, 1.2, [rs] * n, [ds] * n, rgrid=rg, aim_weights=B(), rotate=0),
         lambda: pruned([1.2] * n, ds), 0),
        ("from_pruned:int-radius", lambda: MolGrid.from_pruned(nums, coords, 1, [rs] * n, [ds] * n, rgrid=rg, aim_weights=B(), rotate=0),
         lambda: pruned([1] * n, ds), 0),
        ("from_pruned:array-radius", lambda: MolGrid.from_pruned(nums, coords, np.array([1.2, 1.0, 1.1]), [rs] * n, [ds] * n, rgrid=rg, aim_weights=B(), rotate=0),
         lambda: pruned([1.2, 1.0, 1.1], ds), 0),
        ("from_pruned:single-degree", lambda: MolGrid.from_pruned(nums, coords, 1.2, [rs] * n, 7, rgrid=rg, aim_weights=B(), rotate=0),
         lambda: pruned([1.2] * n, [7] * 4), 0),
        ("from_pruned:default-degree", lambda: MolGrid.from_pruned(nums, coords, 1.2, [rs] * n, rgrid=rg, aim_weights=B(), rotate=0),
         lambda: pruned([1.2] * n, [50] * 4), 0),
        ("from_pruned:sizes", lambda: MolGrid.from_pruned(nums, coords, 1.2, [rs] * n, s_sectors=[ss] * n, rgrid=rg, aim_weights=B(), rotate=0),
         lambda: pruned([1.2] * n, None, ss), 0),
        ("from_pruned:single-size", lambda: MolGrid.from_pruned(nums, coords, 1.2, [rs] * n, s_sectors=26, rgrid=rg, aim_weights=B(), rotate=0),
         lambda: pruned([1.2] * n, None, [26] * 4), 0),
        ("from_pruned:array-sectors", lambda: MolGrid.from_pruned(nums, coords, 1.2, np.array([rs] * n), np.array([ds] * n), rgrid=rg, aim_weights=B(), rotate=0),
         lambda: pruned([1.2] * n, ds), 0),
        ("from_pruned:default-seed-and-weights", lambda: MolGrid.from_pruned(nums, coords, 1.2, [rs] * n, [ds] * n, rgrid=rg),
         lambda: pruned([1.2] * n, ds, rot=DEF(MolGrid.from_pruned)), 37),
        ("from_preset:list-of-presets", lambda: MolGrid.from_preset(nums, coords, ["coarse", "medium", "coarse"], rgrid=rg, aim_weights=B(), rotate=0),
         lambda: [AtomGrid.from_preset(int(nums[i]), ["coarse", "medium", "coarse"][i], rg, center=coords[i], rotate=0) for i in range(n)], 0),
        ("from_preset:default-seed-and-weights", lambda: MolGrid.from_preset(nums, coords, "coarse", rgrid=rg),
         lambda: [AtomGrid.from_preset(int(nums[i]), "coarse", rg, center=coords[i], rotate=DEF(MolGrid.from_preset)) for i in range(n)], 37),
    ]
    # default radial grids (rgrid omitted) for a molecule whose atomic numbers are neither sorted nor distinct
    def drg(i):
        return default_rgrid(int(nums[i]))

    table.append(("from_size:default-rgrid", lambda: MolGrid.from_size(nums, coords, 26, aim_weights=B(), rotate=0),
                  lambda: [AtomGrid(drg(i), degrees=None, sizes=[26], center=coords[i], rotate=0) for i in range(n)], 0))
    table.append(("from_preset:default-rgrid", lambda: MolGrid.from_preset(nums, coords, "coarse", aim_weights=B(), rotate=0),
                  lambda: [AtomGrid.from_preset(int(nums[i]), "coarse", None, center=coords[i], rotate=0) for i in range(n)], 0))
    table.append(("from_pruned:default-rgrid", lambda: MolGrid.from_pruned(nums, coords, 1.2, [rs] * n, [ds] * n, aim_weights=B(), rotate=0),
                  lambda: [AtomGrid.from_pruned(drg(i), 1.2, r_sectors=rs, d_sectors=ds, center=coords[i], rotate=0) for i in range(n)], 0))
    for size in (6, 50, 110, 111):
        table.append((f"from_size:{size}", lambda size=size: MolGrid.from_size(nums, coords, size, rgrid=rg, aim_weights=B(), rotate=0),
                      lambda size=size: [AtomGrid(rg, degrees=None, sizes=[size], center=coords[i], rotate=0) for i in range(n)], 0))
    table.append(("from_size:default-seed-and-weights", lambda: MolGrid.from_size(nums, coords, 26, rgrid=rg),
                  lambda: [AtomGrid(rg, degrees=None, sizes=[26], center=coords[i], rotate=DEF(MolGrid.from_size)) for i in range(n)], 37))
    # rotate given as the flag True (an int, seed 1, for the atomic grids) -- the same argument on both sides
    table.append(("from_size:rotate-flag", lambda: MolGrid.from_size(nums, coords, 26, rgrid=rg, aim_weights=B(), rotate=True),
                  lambda: [AtomGrid(rg, degrees=None, sizes=[26], center=coords[i], rotate=True) for i in range(n)], 1))
    table.append(("from_preset:rotate-flag", lambda: MolGrid.from_preset(nums, coords, "coarse", rgrid=rg, aim_weights=B(), rotate=True),
                  lambda: [AtomGrid.from_preset(int(nums[i]), "coarse", rg, center=coords[i], rotate=True) for i in range(n)], 1))
    table.append(("from_pruned:rotate-flag", lambda: MolGrid.from_pruned(nums, coords, 1.2, [rs] * n, [ds] * n, rgrid=rg, aim_weights=B(), rotate=True),
                  lambda: pruned([1.2] * n, ds, rot=True), 1))
    # atoms with DIFFERENT numbers of sector boundaries: per-atom lists, and a single number expanded per atom
    rag = [[0.5, 1.0, 1.5], [0.7], [0.4, 1.1]]
    ragd = [[3, 7, 5, 3], [5, 3], [3, 7, 5]]

    def ragged(dfn=None, sfn=None):
        return [AtomGrid.from_pruned(rg, 1.2, r_sectors=rag[i], d_sectors=None if dfn is None else dfn(i), s_sectors=None if sfn is None else sfn(i),
                                     center=coords[i], rotate=0) for i in range(n)]

    table.append(("from_pruned:ragged-lists", lambda: MolGrid.from_pruned(nums, coords, 1.2, rag, ragd, rgrid=rg, aim_weights=B(), rotate=0),
                  lambda: ragged(lambda i: ragd[i]), 0))
    table.append(("from_pruned:ragged-single-degree", lambda: MolGrid.from_pruned(nums, coords, 1.2, rag, 7, rgrid=rg, aim_weights=B(), rotate=0),
                  lambda: ragged(lambda i: [7] * (len(rag[i]) + 1)), 0))
    table.append(("from_pruned:ragged-single-size", lambda: MolGrid.from_pruned(nums, coords, 1.2, rag, s_sectors=26, rgrid=rg, aim_weights=B(), rotate=0),
                  lambda: ragged(None, lambda i: [26] * (len(rag[i]) + 1)), 0))
    table.append(("from_pruned:ragged-reversed-single-degree", lambda: MolGrid.from_pruned(nums, coords, 1.2, rag[::-1], np.int64(5), rgrid=rg, aim_weights=B(), rotate=0),
                  lambda: [AtomGrid.from_pruned(rg, 1.2, r_sectors=rag[::-1][i], d_sectors=[5] * (len(rag[::-1][i]) + 1), center=coords[i], rotate=0)
                           for i in range(n)], 0))
    # degrees AND sizes given together (documented: the sizes win) -- the same arguments on both sides
    ss2 = [14, 6, 26, 50]      # not the sizes of the degrees in ds
    table.append(("from_pruned:degree-lists-and-size-lists", lambda: MolGrid.from_pruned(nums, coords, 1.2, [rs] * n, [ds] * n, s_sectors=[ss2] * n, rgrid=rg, aim_weights=B(), rotate=0),
                  lambda: [AtomGrid.from_pruned(rg, 1.2, r_sectors=rs, d_sectors=ds, s_sectors=ss2, center=coords[i], rotate=0) for i in range(n)], 0))
    table.append(("from_pruned:degree-lists-and-single-size", lambda: MolGrid.from_pruned(nums, coords, 1.2, [rs] * n, [ds] * n, s_sectors=26, rgrid=rg, aim_weights=B(), rotate=0),
                  lambda: [AtomGrid.from_pruned(rg, 1.2, r_sectors=rs, d_sectors=ds, s_sectors=[26] * 4, center=coords[i], rotate=0) for i in range(n)], 0))
    table.append(("from_pruned:single-degree-and-size-lists", lambda: MolGrid.from_pruned(nums, coords, 1.2, [rs] * n, 7, s_sectors=[ss2] * n, rgrid=rg, aim_weights=B(), rotate=0),
                  lambda: [AtomGrid.from_pruned(rg, 1.2, r_sectors=rs, d_sectors=[7] * 4, s_sectors=ss2, center=coords[i], rotate=0) for i in range(n)], 0))
    for name, make, hand_fn, rot in table:
        ctx.count(section="argument-forms")
        case = {"route": "forms", "form": name}
        try:
            with warnings.catch_warnings():
                warnings.simplefilter("ignore")
                mg = make()
                hand = hand_fn()
                pts = np.vstack([g.points for g in hand])
                atw = np.hstack([g.weights for g in hand])
                idx = np.concatenate([[0], np.cumsum([g.size for g in hand])])
                aimw = BeckeWeights(order=3)(pts, coords, nums, idx)
        except Exception as exc:
            ctx.violation(f"forms:{name.split(':')[0]}:raised:{type(exc).__name__}", f"{name}: {type(exc).__name__}: {exc}", case)
            continue
        ctx.nontrivial(("forms", name), section="argument-forms")
        if mg.points.shape != pts.shape or _gt(np.max(np.abs(mg.points - pts)), 1e-13 * (1 + np.max(np.abs(pts)))):
            ctx.violation(f"forms:{name.split(':')[0]}:points-not-concatenation", f"{name}: points differ from the hand-built atomic grids", case)
        elif _gt(np.max(np.abs(np.asarray(mg.weights) - atw * aimw)), 1e-12 * np.max(np.abs(atw))):
            ctx.violation(f"forms:{name.split(':')[0]}:weights-not-atomic-times-aim", f"{name}: weights differ from atomic weights x Becke "
                          f"weights (order 3) of the hand-built grids", case)
        else:
            # the molecular integral of one, two and three functions is the weighted sum of their product, and equals the
            # sum over atoms of the atomic-grid integrals of w_A f
            f1, f2, f3 = np.exp(-0.5 * np.sum(pts**2, axis=1)), 1.0 + pts[:, 0] ** 2, np.cos(pts[:, 2])
            w = atw * aimw
            for k, fs in enumerate(((f1,), (f1, f2), (f1, f2, f3))):
                want = float(np.sum(w * np.prod(fs, axis=0)))
                per_atom = sum(float(hand[a].integrate((aimw * np.prod(fs, axis=0))[idx[a]:idx[a + 1]])) for a in range(n))
                got = float(mg.integrate(*[x.copy() for x in fs]))
                sc = float(np.sum(np.abs(w * np.prod(fs, axis=0))))
                if _gt(abs(got - want), 1e-12 * sc) or _gt(abs(per_atom - want), 1e-12 * sc):
                    ctx.violation(f"forms:{name.split(':')[0]}:integral-of-{k + 1}-functions", f"{name}: integrate of {k + 1} function(s) = {got!r}, "
                                  f"weighted sum {want!r}, sum of atomic integrals of w_A f {per_atom!r}", case)


def user_weights(ctx):
    """aim_weights may be ANY callable (points, atcoords, atnums, indices) -> weights: the molecular weights are the atomic
    weights times whatever it returns, for one atom as well as for several (added after seeded change C07-E)."""
    from grid.atomgrid import AtomGrid
    from grid.molgrid import MolGrid

    rg = small_rgrid(2)
    calls = []

    def fuzzy(points, atcoords, atnums, indices):
        calls.append((len(points), len(atcoords), tuple(int(v) for v in indices)))
        return 0.25 + np.exp(-0.3 * np.sum((points - atcoords[0]) ** 2, axis=1))

    for mname in ("H", "CO", "H2O"):
        nums = np.array(MOLS[mname][0])
        coords = np.array(MOLS[mname][1], dtype=float)
        for store in (False, True):
            ctx.count(section="user-weights")
            case = {"route": "user-weights", "molecule": mname, "store": store}
            with warnings.catch_warnings():
                warnings.simplefilter("ignore")
                ats = [AtomGrid(rg, degrees=[5], center=coords[i], rotate=3) for i in range(len(nums))]
                del calls[:]
                mg = MolGrid(nums, ats, fuzzy, store=store)
            pts = np.vstack([g.points for g in ats])
            atw = np.hstack([g.weights for g in ats])
            want = atw * (0.25 + np.exp(-0.3 * np.sum((pts - coords[0]) ** 2, axis=1)))
            ctx.nontrivial(("user-weights", mname, store), section="user-weights")
            if np.asarray(mg.weights).shape != want.shape or _gt(np.max(np.abs(np.asarray(mg.weights) - want)), 1e-13 * np.max(np.abs(want))):
                ctx.violation("user-weights:weights-not-atomic-times-callable", f"{mname} (store={store}): weights differ from atomic weights x the "
                              f"values returned by the user's aim_weights callable (called {len(calls)} times)", case)
            f = np.cos(pts[:, 0]) + 2.0
            if _gt(abs(float(mg.integrate(f)) - float(np.sum(want * f))), 1e-12 * float(np.sum(np.abs(want * f)))):
                ctx.violation("user-weights:integral", f"{mname} (store={store}): integrate differs from sum of w_atomic x callable x f", case)


def shared_weights_object(ctx):
    """One BeckeWeights / HirshfeldWeights object handed to several molecular grids (a geometry scan, different molecules):
    every grid's weights are those of a grid built with its own fresh weights object (seeded change C07-G)."""
    from grid.atomgrid import AtomGrid
    from grid.becke import BeckeWeights
    from grid.hirshfeld import HirshfeldWeights
    from grid.molgrid import MolGrid

    rg = small_rgrid(1)
    nums = np.array(MOLS["H2O"][0])
    base = np.array(MOLS["H2O"][1], dtype=float)
    geoms = [base, base * 1.25 + np.array([0.0, 0.1, -0.2]), base[[0, 2, 1]] * 0.9]
    for wname, make in (("becke", lambda: BeckeWeights(order=3)), ("hirshfeld", lambda: HirshfeldWeights())):
        shared = make()
        for k, coords in enumerate(geoms):
            for route in ("direct", "from_size"):
                ctx.count(section="shared-weights-object")
                case = {"route": "shared-weights", "weights": wname, "geometry": k, "constructor": route}
                with warnings.catch_warnings():
                    warnings.simplefilter("ignore")
                    def build(aim):
                        if route == "direct":
                            ats = [AtomGrid(rg, degrees=[5], center=coords[i], rotate=0) for i in range(3)]
                            return MolGrid(nums, ats, aim, store=False)
                        return MolGrid.from_size(nums, coords, 26, rgrid=rg, aim_weights=aim, rotate=0)
                    a, b = build(shared), build(make())
                ctx.nontrivial(("shared", wname, k, route), section="shared-weights-object")
                if not (np.array_equal(a.points, b.points) and np.allclose(a.weights, b.weights, rtol=1e-13, atol=0)
                        and np.allclose(a.aim_weights, b.aim_weights, rtol=1e-13, atol=1e-300)):
                    ctx.violation(f"shared-weights-object:{wname}:depends-on-earlier-grids", f"geometry {k} ({route}): a molecular grid built with a "
                                  f"weights object that served other grids before differs from one built with a fresh object", case)


def run(ctx):
    from vf.props.c05 import PRESETS

    ctx.guarded("structural", structural, ctx)
    ctx.guarded("forms", forms, ctx)
    ctx.guarded("user-weights", user_weights, ctx)
    ctx.guarded("shared-weights", shared_weights_object, ctx)
    from vf import explore

    for store in (False, True):
        st = explore.explore(ctx, "vf.props.c07:ViewWorld", 3 if not ctx.thorough else 4, params={"store": store, "ctor": "direct"},
                             twice_every=7, fresh_every=0, section="per-atom-views")
        ctx.cov.setdefault("view_exploration", []).append({k: st[k] for k in ("states", "transitions", "depth_completed")})
    jobs = [(p, m, ctx.seed) for p in PRESETS for m in E2E_MOLS]
    jobs.sort(key=lambda j: -(PRESETS.index(j[0]) in (5, 16, 15, 4)) * 10 - len(E2E_MOLS[j[1]][0]))
    for res in lattice.pmap_unordered(_e2e_case, jobs, ctx.workers):
        if len(ctx.samples) > 10:
            res["samples"] = []
        ctx.merge(res)
    ctx.cov["end_to_end_grids"] = len(jobs)
    ctx.cov["exponents"] = list(EXPONENTS)
    ctx.exhaustive = True


def replay(ctx, case):
    if case.get("route") == "e2e":
        ctx.merge(_e2e_case((case["preset"], case["molecule"], ctx.seed)))
    elif "history" in case:
        from vf import explore

        explore.replay_history(ctx, case)
    elif case.get("route") == "forms":
        forms(ctx)
    elif case.get("route") == "user-weights":
        user_weights(ctx)
    elif case.get("route") == "shared-weights":
        shared_weights_object(ctx)
    elif case.get("route") == "structure":
        out = _struct_case((tuple(case["cfg"]), ctx.seed))
        ctx.merge(out[0] if isinstance(out, tuple) else out)
    else:
        structural(ctx)
