"""C20 -- library calls never modify the caller's arrays, dictionaries or callback results.

Engine E3 (aliasing harness) over a catalogue of public calls; engine E1-style chains of two calls
on the same argument objects.

For one catalogued call: build fresh arguments, run it with every applicable aliasing pattern

    fresh      writable, freshly built arguments (baseline)
    readonly   every ndarray argument has flags.writeable = False
    same       the same array object passed for two parameters that accept equal values
    cb-ident   callbacks return (an array derived without copying from) their own argument
    cb-cached  callbacks return one cached, write-protected array per argument value

take a byte-wise snapshot (dtype, shape, tobytes; deep copy for lists / dicts) of every argument
and of every array a callback handed out, call, snapshot again.  Verdict: snapshots identical, no
"read-only" error, and the observed result equal to the baseline run (differential oracle).
Chains: for every ordered pair (A, B) inside a family of calls that share their argument objects,
run A then B on the SAME objects and compare B's result with B on fresh arguments.

The evidence reports catalogue coverage: public callables of the 16 modules that take array /
list / dict / callable parameters -- covered vs total (introspection).
"""

from __future__ import annotations

import copy
import importlib
import inspect
import itertools
import warnings

import numpy as np

from vf import lattice
from vf.cli import WorkerResult

LEVEL = "exploration"
RULE = (
    "catalogue of public calls x applicable aliasing patterns, plus all ordered pairs of calls inside "
    "families that share argument objects; one evaluation = one executed call with before/after "
    "snapshots; distinct non-trivial = distinct (call, pattern) or (family, A, B) that executed"
)
ASSUMPTIONS = [
    "arguments are snapshotted byte-wise; a mutation that restores the original bytes before returning is invisible",
    "catalogue completeness is by introspection + hand-written argument factories; uncovered callables are listed in the evidence",
]

MODULES = ["angular", "atomgrid", "basegrid", "becke", "coulomb", "cubic", "hirshfeld", "molgrid", "ngrid", "ode", "onedgrid",
           "periodicgrid", "poisson", "robust_poisson", "rtransform", "utils"]


# ------------------------------------------------------------------------------ snapshots
def snap(obj):
    if isinstance(obj, np.ndarray):
        return ("nd", obj.dtype.str, obj.shape, obj.tobytes())
    if isinstance(obj, dict):
        return ("dict", tuple((repr(k), snap(v)) for k, v in obj.items()))
    if isinstance(obj, (list, tuple)):
        return (type(obj).__name__, tuple(snap(v) for v in obj))
    if isinstance(obj, (int, float, str, bool, type(None), np.generic)):
        return ("atom", repr(obj))
    if callable(obj) and not hasattr(obj, "__dict__"):
        return ("opaque", type(obj).__name__)
    # library objects handed in by the caller (grids, transforms, weight schemes): every array, list, number or nested
    # library object they hold.  Attributes that are None are lazily filled caches or set-once parameters (the neighbour
    # tree, the harmonic basis, an inferred scale b): they are not part of the caller's data and are skipped.
    if _depth[0] < 4 and hasattr(obj, "__dict__") and type(obj).__module__.startswith("grid."):
        _depth[0] += 1
        try:
            # PUBLIC data only (what the caller put in and can read back): private attributes may be lazily filled
            # caches, which are not the caller's data
            items = {}
            for k in PUBLIC_DATA:
                try:
                    v = getattr(obj, k, None)
                except Exception:
                    continue
                if v is None or callable(v) or inspect.isgenerator(v):
                    continue
                if isinstance(v, (np.ndarray, list, tuple, dict, int, float, str, bool, np.generic)) or type(v).__module__.startswith("grid."):
                    items[k] = snap(v)
            return ("obj", type(obj).__name__, items)
        finally:
            _depth[0] -= 1
    return ("opaque", type(obj).__name__)


_depth = [0]
PUBLIC_DATA = ("points", "weights", "indices", "degrees", "center", "rgrid", "domain", "atcoords", "atnums", "aim_weights",
               "atweights", "origin", "axes", "shape", "realvecs", "size", "rmin", "rmax", "R", "grid_list")


def differs(before, after):
    """True when ``after`` shows a change of something present in ``before`` (attributes that were None before, i.e.
    absent from the snapshot, may appear)."""
    if isinstance(before, tuple) and before and before[0] == "obj":
        if not (isinstance(after, tuple) and after[:2] == before[:2]):
            return True
        return any(k not in after[2] or differs(v, after[2][k]) for k, v in before[2].items())
    if isinstance(before, tuple) and before and before[0] in ("list", "tuple") and isinstance(after, tuple) and after[:1] == before[:1]:
        return len(before[1]) != len(after[1]) or any(differs(x, y) for x, y in zip(before[1], after[1]))
    if isinstance(before, tuple) and before and before[0] == "dict" and isinstance(after, tuple) and after[:1] == ("dict",):
        return len(before[1]) != len(after[1]) or any(kb != ka or differs(vb, va) for (kb, vb), (ka, va) in zip(before[1], after[1]))
    return before != after


def set_readonly(obj):
    if isinstance(obj, np.ndarray):
        obj.flags.writeable = False
    elif isinstance(obj, dict):
        for v in obj.values():
            set_readonly(v)
    elif isinstance(obj, (list, tuple)):
        for v in obj:
            set_readonly(v)


def observe(x):
    """Canonical numeric view of a result for the differential comparison."""
    if callable(x) and not isinstance(x, np.ndarray):
        return ("callable",)
    if isinstance(x, np.ndarray):
        return np.asarray(x, dtype=float) if x.dtype != object else ("object-array",)
    if isinstance(x, (list, tuple)):
        return [observe(v) for v in x]
    if hasattr(x, "points") and hasattr(x, "weights") and not isinstance(x, type):
        try:
            return [np.asarray(x.points, dtype=float), np.asarray(x.weights, dtype=float)]
        except Exception:
            return ("grid",)
    if isinstance(x, (int, float, np.generic)):
        return np.asarray(x, dtype=float)
    return ("other", type(x).__name__)


def same_obs(a, b, rtol=1e-11):
    if isinstance(a, np.ndarray) and isinstance(b, np.ndarray):
        return a.shape == b.shape and np.allclose(a, b, rtol=rtol, atol=1e-13, equal_nan=True)
    if isinstance(a, list) and isinstance(b, list):
        return len(a) == len(b) and all(same_obs(x, y, rtol) for x, y in zip(a, b))
    return a == b


# ------------------------------------------------------------------------------ catalogue
class Spec:
    def __init__(self, name, covers, build, call, post=None, callbacks=(), same=(), family=None, slow=False):
        self.name, self.covers, self.build, self.call = name, covers, build, call
        self.post, self.callbacks, self.same, self.family, self.slow = post, callbacks, same, family, slow


def _rgrid(n=12):
    from grid.onedgrid import GaussLegendre
    from grid.rtransform import BeckeRTransform

    return BeckeRTransform(1e-4, 1.5).transform_1d_grid(GaussLegendre(n))


def _atom(center=(0.1, -0.2, 0.3), n=12, deg=7):
    from grid.atomgrid import AtomGrid

    return AtomGrid(_rgrid(n), degrees=[deg], center=np.array(center))


def _mol(store=True):
    from grid.becke import BeckeWeights
    from grid.molgrid import MolGrid

    return MolGrid(np.array([1, 8]), [_atom((0, 0, -0.7), 8, 5), _atom((0, 0.1, 0.7), 8, 5)], BeckeWeights(), store=store)


def catalogue():
    import grid.rtransform as rt
    from grid.angular import AngularGrid
    from grid.atomgrid import AtomGrid
    from grid.basegrid import Grid, LocalGrid, OneDGrid
    from grid.becke import BeckeWeights
    from grid.coulomb import coulomb_gaussian_p, coulomb_gaussian_s, coulomb_potential
    from grid.cubic import Tensor1DGrids, UniformGrid
    from grid.hirshfeld import HirshfeldWeights
    from grid.molgrid import MolGrid
    from grid.ngrid import MultiDomainGrid
    from grid.ode import solve_ode_bvp, solve_ode_ivp
    from grid.onedgrid import GaussLegendre, TrefethenGeneral
    from grid.periodicgrid import PeriodicGrid
    from grid.poisson import interpolate_laplacian, solve_poisson_bvp, solve_poisson_ivp
    from grid.robust_poisson import solve_poisson_robust
    import grid.utils as ut

    def rngf():
        # a new generator per use: every build() of a spec yields identical argument values
        return np.random.default_rng(20)

    S = []

    def add(*a, **k):
        S.append(Spec(*a, **k))

    # ---- plain grids (family "grid")
    def gargs():
        p = rngf().uniform(-1, 1, (9, 3))
        return {"points": p, "weights": rngf().uniform(0.1, 1, 9), "f": np.cos(p[:, 0]), "g": np.sin(p[:, 1]) + 2,
                "centers": np.array([[0.1, 0.2, 0.3], [0.0, 0.0, 0.0]]), "c": np.array([0.1, 0.0, -0.2]), "idx": np.array([0, 3, 3, 8])}

    add("Grid()", ["Grid"], gargs, lambda a: Grid(a["points"], a["weights"]), family="grid")
    add("Grid.integrate", ["Grid.integrate"], gargs, lambda a: Grid(a["points"], a["weights"]).integrate(a["f"], a["g"]),
        same=[("f", "g")], family="grid")
    add("Grid.get_localgrid", ["Grid.get_localgrid", "LocalGrid"], gargs, lambda a: Grid(a["points"], a["weights"]).get_localgrid(a["c"], 0.9), family="grid")
    for tm in ("cartesian", "radial", "pure", "pure-radial"):
        add(f"Grid.moments[{tm}]", ["Grid.moments"], gargs, lambda a, tm=tm: Grid(a["points"], a["weights"]).moments(2, a["centers"], a["f"], tm, True),
            family="grid")
    add("Grid.__getitem__[array]", ["Grid.__getitem__"], gargs, lambda a: Grid(a["points"], a["weights"])[a["idx"]], family="grid")
    add("LocalGrid()", ["LocalGrid"], gargs, lambda a: LocalGrid(a["points"], a["weights"], a["c"], np.arange(9)), family="grid")

    def oargs():
        x = np.sort(rngf().uniform(-1, 1, 8))
        return {"points": x, "weights": rngf().uniform(0.1, 1, 8), "f": np.exp(x)}

    add("OneDGrid()", ["OneDGrid"], oargs, lambda a: OneDGrid(a["points"], a["weights"], (-1, 1)))
    add("OneDGrid.integrate", ["Grid.integrate"], oargs, lambda a: OneDGrid(a["points"], a["weights"], (-1, 1)).integrate(a["f"]))
    add("OneDGrid.get_localgrid", ["Grid.get_localgrid"], oargs, lambda a: OneDGrid(a["points"], a["weights"], (-1, 1)).get_localgrid(np.float64(0.1), 0.5))
    add("OneDGrid.__getitem__[slice]", ["OneDGrid.__getitem__"], oargs, lambda a: OneDGrid(a["points"], a["weights"], (-1, 1))[2:6])

    # ---- transforms (one family per class)
    tfs = {
        "BeckeRTransform": lambda: rt.BeckeRTransform(0.1, 1.5), "LinearFiniteRTransform": lambda: rt.LinearFiniteRTransform(0.2, 3.0),
        "MultiExpRTransform": lambda: rt.MultiExpRTransform(0.0, 1.2), "KnowlesRTransform": lambda: rt.KnowlesRTransform(0.0, 1.5, 3),
        "HandyRTransform": lambda: rt.HandyRTransform(0.1, 1.1, 3), "HandyModRTransform": lambda: rt.HandyModRTransform(0.0, 12.0, 3),
        "IdentityRTransform": lambda: rt.IdentityRTransform(), "LinearInfiniteRTransform": lambda: rt.LinearInfiniteRTransform(0.1, 9.0, b=5.0),
        "ExpRTransform": lambda: rt.ExpRTransform(0.2, 9.0, b=5.0), "PowerRTransform": lambda: rt.PowerRTransform(0.2, 9.0, b=5.0),
        "PowerRTransform(b=None)": lambda: rt.PowerRTransform(0.2, 9.0), "HyperbolicRTransform": lambda: rt.HyperbolicRTransform(1.0, 1e-3),
        "InverseRTransform": lambda: rt.InverseRTransform(rt.BeckeRTransform(0.0, 1.5)),
    }
    pm1 = ("BeckeRTransform", "LinearFiniteRTransform", "MultiExpRTransform", "KnowlesRTransform", "HandyRTransform", "HandyModRTransform")
    for tname, mk in tfs.items():
        base = tname.split("(")[0]

        def targs(tname=tname, mk=mk):
            if tname in pm1:
                x = np.array([-0.8, -0.3, 0.1, 0.6, 0.9])
            elif tname == "InverseRTransform":
                x = np.array([0.1, 0.5, 1.5, 4.0])
            else:
                x = np.array([0.2, 1.0, 2.5, 4.0, 5.0])
            tf = mk()
            with np.errstate(all="ignore"):
                r = np.asarray(mk().transform(x.copy()), dtype=float)
            return {"tf": tf, "x": x, "r": r}

        for meth in ("transform", "deriv", "deriv2", "deriv3"):
            add(f"{tname}.{meth}", [f"{base}.{meth}", f"BaseTransform.{meth}"], targs, lambda a, meth=meth: getattr(a["tf"], meth)(a["x"]), family=f"tf:{tname}")
        for meth in ("inverse", "deriv_inverse", "deriv2_inverse", "deriv3_inverse"):
            add(f"{tname}.{meth}", [f"{base}.{meth}", f"BaseTransform.{meth}"], targs, lambda a, meth=meth: getattr(a["tf"], meth)(a["r"]), family=f"tf:{tname}")
    add("transform_1d_grid", ["BaseTransform.transform_1d_grid"], lambda: {"g": GaussLegendre(7)},
        lambda a: rt.BeckeRTransform(0.0, 1.5).transform_1d_grid(a["g"]))
    add("BeckeRTransform.find_parameter", ["BeckeRTransform.find_parameter"], lambda: {"x": np.linspace(-0.9, 0.9, 9)},
        lambda a: rt.BeckeRTransform.find_parameter(a["x"], 0.1, 1.2))
    add("TrefethenGeneral", ["TrefethenGeneral"], dict, lambda a: TrefethenGeneral(6, GaussLegendre, 5))

    # ---- angular / atomic
    add("AngularGrid.convert_angular_sizes_to_degrees", ["AngularGrid.convert_angular_sizes_to_degrees"],
        lambda: {"sizes": np.array([6, 26, 26, 50]), "sizes_list": [6, 26, 50]},
        lambda a: [AngularGrid.convert_angular_sizes_to_degrees(a["sizes"], "lebedev"), AngularGrid.convert_angular_sizes_to_degrees(a["sizes_list"], "lebedev")])
    add("AtomGrid()", ["AtomGrid"], lambda: {"rg": _rgrid(5), "degrees": [3, 5, 7, 5, 3], "center": np.array([0.1, 0.2, 0.3])},
        lambda a: AtomGrid(a["rg"], degrees=a["degrees"], center=a["center"], rotate=3))
    add("AtomGrid(sizes)", ["AtomGrid"], lambda: {"rg": _rgrid(4), "sizes": np.array([6, 26, 26, 6]), "center": np.array([0.1, 0.2, 0.3])},
        lambda a: AtomGrid(a["rg"], degrees=None, sizes=a["sizes"], center=a["center"]))
    add("AtomGrid.from_pruned", ["AtomGrid.from_pruned"],
        lambda: {"rg": _rgrid(6), "r_sectors": [0.5, 1.0], "d_sectors": [3, 7, 5], "r_arr": np.array([0.5, 1.0]), "d_arr": np.array([3, 7, 5]),
                 "center": np.array([0.0, 0.5, 0.0])},
        lambda a: [AtomGrid.from_pruned(a["rg"], 1.0, r_sectors=a["r_sectors"], d_sectors=a["d_sectors"], center=a["center"]),
                   AtomGrid.from_pruned(a["rg"], 1.0, r_sectors=a["r_arr"], d_sectors=a["d_arr"], center=a["center"])])
    add("AtomGrid.from_preset", ["AtomGrid.from_preset"], lambda: {"rg": _rgrid(10), "center": np.array([0.3, 0.0, 0.0])},
        lambda a: AtomGrid.from_preset(8, "coarse", a["rg"], center=a["center"], rotate=1))

    def aargs():
        g = _atom()
        p = g.points
        return {"grid": g, "f": np.exp(-np.sum((p - g.center) ** 2, axis=1)) * (1 + p[:, 0]), "q": np.array([[0.3, 0.1, 0.2], [1.0, -0.5, 0.4], [0.1, -0.2, 0.9]]),
                "c": np.array([0.0, 0.1, 0.0])}

    add("AtomGrid.integrate_angular_coordinates", ["AtomGrid.integrate_angular_coordinates"], aargs, lambda a: a["grid"].integrate_angular_coordinates(a["f"]), family="atom")
    add("AtomGrid.spherical_average", ["AtomGrid.spherical_average"], aargs, lambda a: a["grid"].spherical_average(a["f"]), post=lambda r, a: r(np.array([0.2, 0.7])), family="atom")
    add("AtomGrid.radial_component_splines", ["AtomGrid.radial_component_splines"], aargs, lambda a: a["grid"].radial_component_splines(a["f"]),
        post=lambda r, a: np.array([s(0.4) for s in r]), family="atom")
    add("AtomGrid.interpolate", ["AtomGrid.interpolate"], aargs, lambda a: a["grid"].interpolate(a["f"]),
        post=lambda r, a: [r(a["q"]), r(a["q"], deriv=1), r(a["q"], deriv=1, deriv_spherical=True), r(a["q"], deriv=2, only_radial_deriv=True)], family="atom")
    add("AtomGrid.convert_cartesian_to_spherical", ["AtomGrid.convert_cartesian_to_spherical"], aargs,
        lambda a: [a["grid"].convert_cartesian_to_spherical(a["q"], a["c"]), a["grid"].convert_cartesian_to_spherical()], family="atom")
    add("AtomGrid.get_shell_grid", ["AtomGrid.get_shell_grid"], aargs, lambda a: a["grid"].get_shell_grid(2), family="atom")
    add("AtomGrid.get_localgrid", ["Grid.get_localgrid"], aargs, lambda a: a["grid"].get_localgrid(a["c"], 0.8), family="atom")
    add("AtomGrid.moments", ["Grid.moments"], aargs, lambda a: a["grid"].moments(2, a["q"][:2], a["f"], "pure"), family="atom")

    # ---- Becke / Hirshfeld (family "aim")
    def bargs():
        coords = np.array([[0.0, 0.0, 0.0], [0.0, 0.0, 1.8], [1.6, 0.3, -0.4], [-1.1, 1.7, 0.6]])
        pts = np.vstack([coords, rngf().normal(size=(17, 3)) * 1.5])
        return {"points": pts, "atcoords": coords, "atnums": np.array([6, 1, 8, 7]), "indices": np.array([0, 5, 9, 15, 21]), "radii": {1: 0.6, 6: 1.4}}

    add("BeckeWeights()", ["BeckeWeights"], bargs, lambda a: BeckeWeights(radii=a["radii"], order=2)(a["points"], a["atcoords"], a["atnums"], a["indices"]), family="aim")
    add("BeckeWeights.__call__", ["BeckeWeights.__call__"], bargs, lambda a: BeckeWeights()(a["points"], a["atcoords"], a["atnums"], a["indices"]), family="aim")
    add("BeckeWeights.generate_weights", ["BeckeWeights.generate_weights"], bargs,
        lambda a: [BeckeWeights().generate_weights(a["points"], a["atcoords"], a["atnums"], select=1), BeckeWeights().generate_weights(a["points"], a["atcoords"], a["atnums"], pt_ind=a["indices"])], family="aim")
    add("BeckeWeights.compute_atom_weight", ["BeckeWeights.compute_atom_weight"], bargs, lambda a: BeckeWeights().compute_atom_weight(a["points"], a["atcoords"], a["atnums"], 2), family="aim")
    add("BeckeWeights.compute_weights", ["BeckeWeights.compute_weights"], bargs, lambda a: BeckeWeights().compute_weights(a["points"], a["atcoords"], a["atnums"], pt_ind=a["indices"]), family="aim")
    # elements whose Bragg radius is not tabulated (the fallback branch of the radius lookup), some of them repeated, with and
    # without a user radius for one of them (added after seeded change C20-I: the fallback rewrote the caller's atomic numbers)
    def bargs_noble():
        a = bargs()
        a["atnums"] = np.array([10, 1, 86, 10])
        a["radii"] = {86: 2.1}
        return a

    add("BeckeWeights()[untabulated radii]", ["BeckeWeights"], bargs_noble, lambda a: BeckeWeights(radii=a["radii"], order=2)(a["points"], a["atcoords"], a["atnums"], a["indices"]))
    add("BeckeWeights.__call__[untabulated radii]", ["BeckeWeights.__call__"], bargs_noble, lambda a: BeckeWeights()(a["points"], a["atcoords"], a["atnums"], a["indices"]))
    add("BeckeWeights.generate_weights[untabulated radii]", ["BeckeWeights.generate_weights"], bargs_noble,
        lambda a: [BeckeWeights().generate_weights(a["points"], a["atcoords"], a["atnums"], select=1), BeckeWeights().generate_weights(a["points"], a["atcoords"], a["atnums"], pt_ind=a["indices"])])
    add("BeckeWeights.compute_atom_weight[untabulated radii]", ["BeckeWeights.compute_atom_weight"], bargs_noble,
        lambda a: [BeckeWeights().compute_atom_weight(a["points"], a["atcoords"], a["atnums"], k) for k in (0, 2)])
    add("BeckeWeights.compute_weights[untabulated radii]", ["BeckeWeights.compute_weights"], bargs_noble,
        lambda a: [BeckeWeights().compute_weights(a["points"], a["atcoords"], a["atnums"], pt_ind=a["indices"]),
                   BeckeWeights(radii=a["radii"]).compute_weights(a["points"], a["atcoords"], a["atnums"], select=[2, 0], pt_ind=a["indices"][[0, 2, 4]])])
    add("HirshfeldWeights.__call__", ["HirshfeldWeights.__call__"], bargs, lambda a: HirshfeldWeights()(a["points"], a["atcoords"], a["atnums"], a["indices"]), family="aim")
    add("HirshfeldWeights.generate_proatom", ["HirshfeldWeights.generate_proatom"], bargs, lambda a: HirshfeldWeights.generate_proatom(a["points"], a["atcoords"][0], 6), family="aim")
    add("get_cov_radii", ["get_cov_radii"], bargs, lambda a: [ut.get_cov_radii(a["atnums"]), ut.get_cov_radii(a["atnums"], "cambridge")], family="aim")

    # ---- molecular grids
    def margs():
        return {"atnums": np.array([1, 8]), "atcoords": np.array([[0.0, 0.0, -0.7], [0.0, 0.1, 0.7]]), "rg": _rgrid(8),
                "rg_list": [_rgrid(7), _rgrid(8)], "rg_dict": {1: _rgrid(7), 8: _rgrid(8)}, "preset": {1: "coarse", 8: "coarse"},
                "radius": [1.0, 1.2], "r_sectors": [[0.5, 1.0], [0.5, 1.0]], "d_sectors": [[3, 5, 3], [3, 7, 5]]}

    def mol_direct(a, aim):
        ats = [AtomGrid(a["rg"], degrees=[5], center=a["atcoords"][i]) for i in range(2)]
        return MolGrid(a["atnums"], ats, aim, store=True)

    add("MolGrid()", ["MolGrid"], margs, lambda a: mol_direct(a, BeckeWeights()), family="mol")
    add("MolGrid(aim array)", ["MolGrid"], lambda: dict(margs(), aim=np.linspace(0.1, 1.0, 2 * 8 * 18)), lambda a: mol_direct(a, a["aim"]))
    # weights that contain non-finite entries (0/0 far from every atom) are still the caller's array
    def nan_aim():
        w = np.linspace(0.1, 1.0, 2 * 8 * 18)
        w[::7] = np.nan
        return w

    add("MolGrid(aim array with nan)", ["MolGrid"], lambda: dict(margs(), aim=nan_aim()), lambda a: mol_direct(a, a["aim"]).size)
    _nan_cache = {}

    def nan_callable(points, atcoords, atnums, indices):
        key = len(points)
        if key not in _nan_cache:
            w = np.linspace(0.1, 1.0, key)
            w[::5] = np.nan
            _nan_cache[key] = w
        return _nan_cache[key]

    def mol_nan_callable(a):
        g = mol_direct(a, nan_callable)
        kept = next(iter(_nan_cache.values()))
        if not np.isnan(kept[0]):
            raise AssertionError("the array returned by the aim_weights callable was modified (nan entries overwritten)")
        return g.size

    add("MolGrid(aim callable returning a kept array with nan)", ["MolGrid"], margs, mol_nan_callable)
    add("MolGrid(aim callable)", ["MolGrid"], margs, lambda a: mol_direct(a, a["cb"]), callbacks=[("cb", "aim")])
    add("MolGrid.from_size", ["MolGrid.from_size"], margs, lambda a: MolGrid.from_size(a["atnums"], a["atcoords"], 26, rgrid=a["rg"], rotate=3), family="mol")
    add("MolGrid.from_preset", ["MolGrid.from_preset"], margs,
        lambda a: [MolGrid.from_preset(a["atnums"], a["atcoords"], a["preset"], rgrid=a["rg_dict"]), MolGrid.from_preset(a["atnums"], a["atcoords"], "coarse", rgrid=a["rg_list"])], family="mol")
    add("MolGrid.from_pruned", ["MolGrid.from_pruned"], margs,
        lambda a: MolGrid.from_pruned(a["atnums"], a["atcoords"], a["radius"], a["r_sectors"], a["d_sectors"], rgrid=a["rg_list"]), family="mol")

    def mgargs():
        mg = _mol()
        return {"mg": mg, "f": np.exp(-np.sum(mg.points**2, axis=1)), "q": np.array([[0.2, 0.1, 0.3], [0.0, 0.5, -0.9]])}

    add("MolGrid.interpolate", ["MolGrid.interpolate"], mgargs, lambda a: a["mg"].interpolate(a["f"]), post=lambda r, a: [r(a["q"]), r(a["q"], deriv=1)], family="molgrid")
    add("MolGrid.get_atomic_grid", ["MolGrid.get_atomic_grid", "MolGrid.__getitem__"], mgargs, lambda a: [a["mg"].get_atomic_grid(1), a["mg"][0]], family="molgrid")
    add("MolGrid.integrate", ["Grid.integrate"], mgargs, lambda a: a["mg"].integrate(a["f"]), family="molgrid")
    add("dipole_moment_of_molecule", ["dipole_moment_of_molecule"], lambda: dict(mgargs(), coords=np.array([[0.0, 0.0, -0.7], [0.0, 0.1, 0.7]]), charges=np.array([1, 8])),
        lambda a: ut.dipole_moment_of_molecule(a["mg"], a["f"], a["coords"], a["charges"]))

    # ---- cubic
    def cargs():
        g = UniformGrid(np.array([-1.0, -1.0, -1.0]), np.diag([0.3, 0.3, 0.3]), np.array([7, 7, 7]))
        p = g.points
        return {"origin": np.array([-1.0, -1.0, -1.0]), "axes": np.diag([0.3, 0.3, 0.3]), "shape": np.array([7, 7, 7]), "grid": g,
                "values": p[:, 0] ** 2 + p[:, 1] * p[:, 2] + 2.0, "q": np.array([[-0.1, 0.05, 0.2], [0.15, -0.2, 0.1]]), "pt": np.array([0.1, -0.3, 0.2]),
                "atnums": np.array([8, 1]), "atcoords": np.array([[0.0, 0.0, 0.0], [0.0, 0.5, 1.2]]), "coord": np.array([1, 2, 3])}

    add("UniformGrid()", ["UniformGrid"], cargs, lambda a: UniformGrid(a["origin"], a["axes"], a["shape"], weight="Fourier1"), family="cubic")
    add("UniformGrid.from_molecule", ["UniformGrid.from_molecule"], cargs, lambda a: UniformGrid.from_molecule(a["atnums"], a["atcoords"], spacing=0.8, extension=1.5), family="cubic")
    add("UniformGrid.interpolate", ["_HyperRectangleGrid.interpolate"], cargs,
        lambda a: [a["grid"].interpolate(a["q"], a["values"]), a["grid"].interpolate(a["q"], a["values"], use_log=True, nu_x=1), a["grid"].interpolate(a["q"], a["values"], method="linear")], family="cubic")
    add("UniformGrid.closest_point", ["UniformGrid.closest_point"], cargs, lambda a: [a["grid"].closest_point(a["pt"]), a["grid"].closest_point(a["pt"], "origin")], family="cubic")
    add("coordinates_to_index", ["_HyperRectangleGrid.coordinates_to_index", "_HyperRectangleGrid.index_to_coordinates"], cargs,
        lambda a: [a["grid"].coordinates_to_index(a["coord"]), np.array(a["grid"].index_to_coordinates(17))], family="cubic")
    add("get_points_along_axes", ["_HyperRectangleGrid.get_points_along_axes"], cargs, lambda a: list(a["grid"].get_points_along_axes()), family="cubic")
    add("Tensor1DGrids()", ["Tensor1DGrids"], lambda: {"x": GaussLegendre(3), "y": GaussLegendre(4), "z": GaussLegendre(2)}, lambda a: Tensor1DGrids(a["x"], a["y"], a["z"]))

    # ---- periodic
    def pargs():
        return {"points": rngf().uniform(-0.5, 1.5, (8, 3)), "weights": rngf().uniform(0.1, 1, 8), "realvecs": np.array([[1.0, 0.1, 0.0], [0.0, 1.2, 0.0], [0.2, 0.0, 0.9]]),
                "c": np.array([0.3, 0.4, 0.2])}

    add("PeriodicGrid(wrap)", ["PeriodicGrid"], pargs, lambda a: PeriodicGrid(a["points"], a["weights"], a["realvecs"], wrap=True), family="periodic")
    add("PeriodicGrid.get_localgrid", ["PeriodicGrid.get_localgrid"], pargs, lambda a: PeriodicGrid(a["points"], a["weights"], a["realvecs"]).get_localgrid(a["c"], 1.3), family="periodic")
    add("PeriodicGrid.__getitem__", ["PeriodicGrid.__getitem__"], pargs, lambda a: PeriodicGrid(a["points"], a["weights"], a["realvecs"])[np.array([1, 4])], family="periodic")

    # ---- multi-domain
    def nargs():
        return {"grids": [GaussLegendre(3), GaussLegendre(4)]}

    add("MultiDomainGrid.integrate[vectorised]", ["MultiDomainGrid.integrate", "MultiDomainGrid"], nargs,
        lambda a: MultiDomainGrid(a["grids"]).integrate(a["cb"]), callbacks=[("cb", "integrand2")])
    add("MultiDomainGrid.integrate[pointwise]", ["MultiDomainGrid.integrate"], nargs,
        lambda a: MultiDomainGrid(a["grids"]).integrate(a["cb"], non_vectorized=True, integration_chunk_size=5), callbacks=[("cb", "integrand2")])
    add("MultiDomainGrid.integrate[1 domain]", ["MultiDomainGrid.integrate"], lambda: {"grids": [GaussLegendre(6)]},
        lambda a: MultiDomainGrid(a["grids"]).integrate(a["cb"]), callbacks=[("cb", "integrand1")])

    # ---- ODE
    def ode_args():
        return {"x_span": (0.2, 1.5), "coeffs": [0.7, 0.3, 1.5], "y0": [1.0, -0.4], "x": np.linspace(0.2, 1.5, 12), "bd": [[0, 0, 1.0], [1, 0, 0.3]],
                "guess": np.zeros((2, 12)), "coeff_arr": np.array([0.7, 0.3, 1.5]), "y0_arr": np.array([1.0, -0.4])}

    for tname, mk in (("none", lambda: None), ("inv-becke", lambda: rt.InverseRTransform(rt.BeckeRTransform(0.0, 1.3)))):
        add(f"solve_ode_ivp[{tname}]", ["solve_ode_ivp"], ode_args, lambda a, mk=mk: solve_ode_ivp(a["x_span"], a["fx"], a["coeffs"], a["y0"], transform=mk()),
            post=lambda r, a: r(np.array([0.3, 0.9, 1.4])), callbacks=[("fx", "rhs")])
        add(f"solve_ode_ivp[{tname}, callable coeffs]", ["solve_ode_ivp"], ode_args,
            lambda a, mk=mk: solve_ode_ivp(a["x_span"], a["fx"], [a["c0"], 0.3, a["c2"]], a["y0_arr"], transform=mk()),
            post=lambda r, a: r(np.array([0.3, 0.9, 1.4])), callbacks=[("fx", "rhs"), ("c0", "coef0"), ("c2", "coef2")])
        add(f"solve_ode_bvp[{tname}]", ["solve_ode_bvp"], ode_args,
            lambda a, mk=mk: solve_ode_bvp(a["x"], a["fx"], a["coeff_arr"], a["bd"], transform=mk(), initial_guess_y=a["guess"], tol=1e-6),
            post=lambda r, a: r(np.array([0.3, 0.9, 1.4])), callbacks=[("fx", "rhs")])
        add(f"solve_ode_bvp[{tname}, callable coeffs]", ["solve_ode_bvp"], ode_args,
            lambda a, mk=mk: solve_ode_bvp(a["x"], a["fx"], [a["c0"], 0.3, a["c2"]], a["bd"], transform=mk(), initial_guess_y=a["guess"], tol=1e-6),
            post=lambda r, a: r(np.array([0.3, 0.9, 1.4])), callbacks=[("fx", "rhs"), ("c0", "coef0"), ("c2", "coef2")])

    # coefficient patterns (added after seeded change C20-D was missed: the right-hand side divided in place only when
    # every lower-order coefficient vanishes and the leading one is not 1): zero lower-order coefficients, unit and
    # non-unit leading coefficient, orders 1 to 3, no transform and the identity transform
    zero_low = {
        "order1-zero-low": ([0.0, 4.0], [1.0], [[0, 0, 1.0]]),
        "order2-zero-low": ([0.0, 0.0, 2.0], [1.0, -0.4], [[0, 0, 1.0], [1, 0, 0.3]]),
        "order2-unit-lead": ([0.5, 0.0, 1.0], [1.0, -0.4], [[0, 0, 1.0], [1, 0, 0.3]]),
        "order2-only-first": ([0.0, 0.6, 2.5], [1.0, -0.4], [[0, 0, 1.0], [1, 0, 0.3]]),
        "order3-zero-low": ([0.0, 0.0, 0.0, 3.0], [1.0, -0.4, 0.2], [[0, 0, 1.0], [1, 0, 0.3], [0, 1, -0.4]]),
    }
    for cname, (cf, y0v, bdv) in zero_low.items():
        def zargs(cf=cf, y0v=y0v, bdv=bdv):
            return {"x_span": (0.2, 1.5), "coeffs": list(cf), "y0": list(y0v), "x": np.linspace(0.2, 1.5, 12), "bd": [list(b) for b in bdv],
                    "guess": np.zeros((len(y0v), 12))}
        for tname, mk in (("none", lambda: None), ("identity", lambda: rt.IdentityRTransform())):
            add(f"solve_ode_ivp[{tname}, {cname}]", ["solve_ode_ivp"], zargs,
                lambda a, mk=mk: solve_ode_ivp(a["x_span"], a["fx"], a["coeffs"], a["y0"], transform=mk()),
                post=lambda r, a: r(np.array([0.3, 0.9, 1.4])), callbacks=[("fx", "rhs")])
            add(f"solve_ode_bvp[{tname}, {cname}]", ["solve_ode_bvp"], zargs,
                lambda a, mk=mk: solve_ode_bvp(a["x"], a["fx"], a["coeffs"], a["bd"], transform=mk(), initial_guess_y=a["guess"], tol=1e-6),
                post=lambda r, a: r(np.array([0.3, 0.9, 1.4])), callbacks=[("fx", "rhs")])

    # ---- Poisson
    def poargs():
        from grid.onedgrid import GaussLegendre as GL

        btf = rt.BeckeRTransform(0.0, 1.5)
        g = AtomGrid(btf.transform_1d_grid(GL(40)), degrees=[5], center=np.array([0.0, 0.0, 0.0]))
        return {"grid": g, "tf": rt.InverseRTransform(btf), "f": (1 / np.pi) ** 1.5 * np.exp(-np.sum(g.points**2, axis=1)), "q": np.array([[0.3, 0.2, 0.1], [1.0, 0.5, -2.0]]),
                "bvp_params": {"tol": 1e-5}, "ivp_params": {"rtol": 1e-6}, "atnums": np.array([1]), "atcoords": np.array([[0.0, 0.0, 0.0]]),
                "alphas": np.array([0.1, 1.0, 10.0])}

    add("solve_poisson_bvp", ["solve_poisson_bvp"], poargs, lambda a: solve_poisson_bvp(a["grid"], a["f"], a["tf"], ode_params=a["bvp_params"]),
        post=lambda r, a: r(a["q"]), family="poisson", slow=True)
    add("interpolate_laplacian", ["interpolate_laplacian"], poargs, lambda a: interpolate_laplacian(a["grid"], a["f"]), post=lambda r, a: r(a["q"]), family="poisson")
    add("solve_poisson_robust", ["solve_poisson_robust"], poargs,
        lambda a: solve_poisson_robust(a["grid"], a["f"], a["tf"], a["atnums"], a["atcoords"], split2=True, alphas_basis=a["alphas"], ode_params=a["bvp_params"]),
        post=lambda r, a: r(a["q"]), family="poisson", slow=True)

    def piargs():
        from grid.onedgrid import GaussLegendre as GL

        btf = rt.LinearFiniteRTransform(1e-3, 50.0)
        g = AtomGrid(btf.transform_1d_grid(GL(60)), degrees=[3], center=np.array([0.0, 0.0, 0.0]))
        return {"grid": g, "tf": rt.InverseRTransform(btf), "f": (1 / np.pi) ** 1.5 * np.exp(-np.sum(g.points**2, axis=1)), "q": np.array([[0.3, 0.2, 0.1], [1.0, 0.5, -2.0]]),
                "ivp_params": {"rtol": 1e-6}}

    add("solve_poisson_ivp", ["solve_poisson_ivp"], piargs, lambda a: solve_poisson_ivp(a["grid"], a["f"], a["tf"], r_interval=(50.0, 1e-3), ode_params=a["ivp_params"]),
        post=lambda r, a: r(a["q"]), slow=True)

    # ---- Coulomb (family)
    def coargs():
        return {"r": np.array([0.0, 1e-13, 0.5, 2.0]), "points": rngf().normal(size=(6, 3)), "cs": np.array([[0.0, 0.0, 0.0], [0.0, 0.0, 1.0]]), "co": np.array([1.0, 0.5]),
                "al": np.array([0.8, 2.0]), "cp": np.array([[0.1, 0.0, 0.0]]), "cop": np.array([0.3]), "alp": np.array([1.5])}

    add("coulomb_gaussian_s", ["coulomb_gaussian_s"], coargs, lambda a: [coulomb_gaussian_s(a["r"], 1.3), coulomb_gaussian_s(a["r"], 1.3, normalized=False)], family="coulomb")
    add("coulomb_gaussian_p", ["coulomb_gaussian_p"], coargs, lambda a: coulomb_gaussian_p(a["r"], 0.7), family="coulomb")
    add("coulomb_potential", ["coulomb_potential"], coargs,
        lambda a: coulomb_potential(a["points"], a["cs"], a["co"], a["al"], centers_p=a["cp"], coeffs_p=a["cop"], alphas_p=a["alp"]), same=[("co", "al")], family="coulomb")
    # non-default options of the same calls (added after seeded change C19-G: coefficients rescaled in place only for
    # normalized=False): every boolean / enumerated option of the catalogued operations at its other value
    add("coulomb_potential[unnormalised]", ["coulomb_potential"], coargs,
        lambda a: [coulomb_potential(a["points"], a["cs"], a["co"], a["al"], normalized=False),
                   coulomb_potential(a["points"], a["cs"], a["co"], a["al"], centers_p=a["cp"], coeffs_p=a["cop"], alphas_p=a["alp"], normalized=False)],
        same=[("co", "al")], family="coulomb")
    add("coulomb_gaussian_p[unnormalised]", ["coulomb_gaussian_p"], coargs, lambda a: coulomb_gaussian_p(a["r"], 0.7, normalized=False), family="coulomb")
    add("AtomGrid.get_shell_grid[r_sq=False]", ["AtomGrid.get_shell_grid"], aargs, lambda a: [a["grid"].get_shell_grid(1, r_sq=False), a["grid"].get_shell_grid(0, r_sq=True)], family="atom")
    add("Grid.moments[no order list]", ["Grid.moments"], gargs, lambda a: Grid(a["points"], a["weights"]).moments(2, a["centers"], a["f"], "pure-radial", False), family="grid")
    add("UniformGrid.from_molecule[rotate=False]", ["UniformGrid.from_molecule"], cargs,
        lambda a: UniformGrid.from_molecule(a["atnums"], a["atcoords"], spacing=0.8, extension=1.5, rotate=False, weight="Rectangle"), family="cubic")
    add("solve_poisson_bvp[options]", ["solve_poisson_bvp"], poargs,
        lambda a: solve_poisson_bvp(a["grid"], a["f"], a["tf"], boundary=float(np.sqrt(4 * np.pi)), include_origin=False, remove_large_pts=50.0, ode_params=a["bvp_params"]),
        post=lambda r, a: r(a["q"]), slow=True)
    add("solve_poisson_robust[split2=False]", ["solve_poisson_robust"], poargs,
        lambda a: solve_poisson_robust(a["grid"], a["f"], a["tf"], a["atnums"], a["atcoords"], split2=False, ode_params=a["bvp_params"]),
        post=lambda r, a: r(a["q"]), slow=True)
    for tname, mk in (("none", lambda: None), ("inv-becke", lambda: rt.InverseRTransform(rt.BeckeRTransform(0.0, 1.3)))):
        add(f"solve_ode_ivp[{tname}, no_derivatives]", ["solve_ode_ivp"], ode_args,
            lambda a, mk=mk: solve_ode_ivp(a["x_span"], a["fx"], a["coeffs"], a["y0_arr"], transform=mk(), no_derivatives=True, method="Radau"),
            post=lambda r, a: r(np.array([0.3, 0.9, 1.4])), callbacks=[("fx", "rhs")])
        add(f"solve_ode_bvp[{tname}, derivatives]", ["solve_ode_bvp"], ode_args,
            lambda a, mk=mk: solve_ode_bvp(a["x"], a["fx"], a["coeff_arr"], a["bd"], transform=mk(), initial_guess_y=a["guess"], tol=1e-6, no_derivatives=False),
            post=lambda r, a: r(np.array([0.3, 0.9, 1.4])), callbacks=[("fx", "rhs")])

    # ---- harmonics (family)
    def hargs():
        return {"theta": np.array([0.0, 0.7, -1.1, 7.5]), "phi": np.array([0.0, 0.4, 2.9, 1.2]), "sph": np.array([[1.0, 0.3, 0.5], [0.0, 0.0, 0.0], [2.0, -1.0, 2.5]]),
                "cart": rngf().normal(size=(5, 3)), "c": np.array([0.1, 0.2, 0.3])}

    add("generate_real_spherical_harmonics", ["generate_real_spherical_harmonics"], hargs, lambda a: ut.generate_real_spherical_harmonics(4, a["theta"], a["phi"]), same=[("theta", "phi")], family="harm")
    add("generate_real_spherical_harmonics_scipy", ["generate_real_spherical_harmonics_scipy"], hargs, lambda a: ut.generate_real_spherical_harmonics_scipy(4, a["theta"], a["phi"]), same=[("theta", "phi")], family="harm")
    add("generate_derivative_real_spherical_harmonics", ["generate_derivative_real_spherical_harmonics"], hargs,
        lambda a: ut.generate_derivative_real_spherical_harmonics(3, a["theta"], a["phi"]), same=[("theta", "phi")], family="harm")
    add("solid_harmonics", ["solid_harmonics"], hargs, lambda a: ut.solid_harmonics(3, a["sph"]), family="harm")
    add("convert_cart_to_sph", ["convert_cart_to_sph"], hargs, lambda a: [ut.convert_cart_to_sph(a["cart"]), ut.convert_cart_to_sph(a["cart"], a["c"])], family="harm")
    add("generate_orders_horton_order", ["generate_orders_horton_order"], dict, lambda a: [ut.generate_orders_horton_order(2, t) for t in ("cartesian", "radial", "pure", "pure-radial")])
    add("convert_derivative_from_spherical_to_cartesian", ["convert_derivative_from_spherical_to_cartesian"],
        lambda: {"d": np.array([0.3, -0.2, 0.7]), "s": np.array([1.3, 0.4, 1.1])},
        lambda a: ut.convert_derivative_from_spherical_to_cartesian(a["d"][0], a["d"][1], a["d"][2], a["s"][0], a["s"][1], a["s"][2]))

    # ---- the scale setters of the b-scaled maps, reassignment of points / weights, files
    for cname in ("LinearInfiniteRTransform", "ExpRTransform", "PowerRTransform"):
        add(f"{cname}.set_maximum_parameter_b", [f"{cname}.set_maximum_parameter_b"],
            lambda cname=cname: {"tf": getattr(rt, cname)(0.2, 9.0), "x": np.array([0.0, 1.0, 2.5, 4.0])},
            lambda a: [a["tf"].set_maximum_parameter_b(a["x"]), float(a["tf"].b), a["tf"].transform(a["x"])][1:])

    def sargs():
        a = gargs()
        a["new_points"] = a["points"][::-1] * 0.5
        a["new_weights"] = a["weights"][::-1] * 2.0
        return a

    def assign(a):
        g = Grid(a["points"], a["weights"])
        g.get_localgrid(a["c"], 0.9)
        g.points = a["new_points"]
        g.weights = a["new_weights"]
        return [g.integrate(a["f"]), g.get_localgrid(a["c"], 0.9).indices]

    add("Grid.points/weights setters", ["Grid.points", "Grid.weights"], sargs, assign)

    def cube_args():
        a = cargs()
        a["pseudo"] = np.array([8.0, 1.0])
        return a

    def write_cube(a):
        import os
        import tempfile

        d = tempfile.mkdtemp(prefix="c20cube")
        try:
            fn = os.path.join(d, "t.cube")
            a["grid"].generate_cube(fn, a["values"], a["atcoords"], a["atnums"], a["pseudo"])
            g2, data = UniformGrid.from_cube(fn, return_data=True)
            npz = os.path.join(d, "g.npz")
            a["grid"].save(npz)
            return [g2.points, data["data"], data["atcorenums"]]
        finally:
            import shutil

            shutil.rmtree(d, ignore_errors=True)

    # ---- inputs that are VIEWS of other inputs ("inputs may be ... shared"): the result equals the one for copies
    def vargs():
        p = rngf().uniform(-1, 1, (9, 3))
        return {"points": p, "weights": rngf().uniform(0.1, 1, 9), "f": np.cos(p[:, 0]) + 2.0}

    def both(fn):
        def call(a):
            pts, w, f = a["points"], a["weights"], a["f"]
            got = observe(fn(pts, w, f, lambda x: x))
            want = observe(fn(pts.copy(), w.copy(), f.copy(), lambda x: np.array(x, copy=True)))
            if not same_obs(got, want):
                raise AssertionError("result with arguments that are views of each other differs from the result with copies")
            return got
        return call

    from grid.becke import BeckeWeights as _BW
    from grid.coulomb import coulomb_potential as _cp

    add("view:moments(centers=points[:2])", ["Grid.moments"], vargs,
        both(lambda p, w, f, v: Grid(p, w).moments(2, v(p[:2]), f, "pure")))
    add("view:get_localgrid(center=points[3])", ["Grid.get_localgrid"], vargs,
        both(lambda p, w, f, v: Grid(p, w).get_localgrid(v(p[3]), 0.8)))
    add("view:integrate(weights as values)", ["Grid.integrate"], vargs,
        both(lambda p, w, f, v: Grid(p, w).integrate(v(w), f, v(f))))
    add("view:BeckeWeights(atcoords=points[:3])", ["BeckeWeights.generate_weights"], vargs,
        both(lambda p, w, f, v: _BW().generate_weights(p, v(p[:3]), np.array([1, 6, 8]), select=1)))
    add("view:coulomb_potential(centers=points[::4], coeffs=weights[:3])", ["coulomb_potential"], vargs,
        both(lambda p, w, f, v: _cp(p, v(p[::4]), v(w[:3]), v(f[:3]))))
    add("view:Grid(points.T.T, weights[::-1][::-1])", ["Grid"], vargs,
        both(lambda p, w, f, v: Grid(v(p.T).T if v(p) is p else p.copy(), w).get_localgrid(np.zeros(3), 1.0)))
    add("view:convert_cart_to_sph(center=points[0])", ["convert_cart_to_sph"], vargs,
        both(lambda p, w, f, v: ut.convert_cart_to_sph(p, v(p[0]))))
    add("view:AtomGrid(center=row of an array).interpolate(points of the grid)", ["AtomGrid.interpolate"], vargs,
        both(lambda p, w, f, v: (lambda g: g.interpolate(np.exp(-np.sum((g.points - g.center) ** 2, axis=1)))(v(g.points[:5])))(AtomGrid(_rgrid(8), degrees=[5], center=v(p[0])))))

    add("UniformGrid.generate_cube/from_cube/save", ["UniformGrid.generate_cube", "UniformGrid.from_cube", "Grid.save", "_HyperRectangleGrid"], cube_args, write_cube)
    return S


# ------------------------------------------------------------------------------ callbacks
class Callback:
    """A user callback in one of three styles; records every array it hands out."""

    def __init__(self, kind, style):
        self.kind, self.style = kind, style
        self.handed = []     # (array, snapshot taken when handed out)
        self.cache = {}

    def _value(self, *args):
        k = self.kind
        if k == "rhs":
            x = np.asarray(args[0], dtype=float)
            return np.exp(-x) * (1 + 0 * x)
        if k == "coef0":
            x = np.asarray(args[0], dtype=float)
            return 0.7 + 0.1 * x
        if k == "coef2":
            x = np.asarray(args[0], dtype=float)
            return 1.5 + 0.05 * x * x
        if k == "integrand1":
            return np.cos(np.asarray(args[0], dtype=float))
        if k == "integrand2":
            return np.asarray(args[0], dtype=float) * 0 + np.cos(np.asarray(args[0], dtype=float)) * np.exp(np.asarray(args[1], dtype=float))
        if k == "aim":
            return np.full(len(args[0]), 0.5)
        raise KeyError(k)

    def __call__(self, *args):
        if self.style == "fresh":
            return self._value(*args)
        if self.style == "ident":
            # hand back (a view of) an argument itself whenever the mathematics allows: the
            # identity-like callbacks are rhs(x)=x-shaped and integrand(x..)=last argument
            arg = args[-1] if self.kind.startswith("integrand") else args[0]
            if self.kind in ("rhs", "integrand1", "integrand2") and isinstance(arg, np.ndarray):
                self.handed.append((arg, snap(arg)))
                return arg
            return self._value(*args)
        # cached: one write-protected array per distinct argument bytes
        key = tuple(np.asarray(a, dtype=float).tobytes() for a in args if not isinstance(a, (list, dict)))
        if key not in self.cache:
            v = np.array(self._value(*args), dtype=float)
            if isinstance(v, np.ndarray) and v.ndim:
                v.flags.writeable = False
            self.cache[key] = v
            self.handed.append((v, snap(v)))
        return self.cache[key]


# ------------------------------------------------------------------------------ execution
def run_spec(spec, pattern, res, prior=None, args=None):
    """Execute one (spec, pattern).  Returns (observation or None, args)."""
    case = {"call": spec.name, "pattern": pattern}
    with warnings.catch_warnings():
        warnings.simplefilter("ignore")
        with np.errstate(all="ignore"):
            if args is None:
                args = spec.build()
            style = {"cb-ident": "ident", "cb-cached": "cached"}.get(pattern, "fresh")
            cbs = []
            for pname, kind in spec.callbacks:
                cb = Callback(kind, style)
                args[pname] = cb
                cbs.append(cb)
            if pattern == "same":
                for a, b in spec.same:
                    args[b] = args[a]
            if pattern == "readonly":
                for k, v in args.items():
                    if not callable(v):
                        set_readonly(v)
            if pattern == "noncontig":
                # the same values in another memory layout: strided views of larger buffers (1-D), Fortran order (2-D)
                for k, v in list(args.items()):
                    if isinstance(v, np.ndarray) and v.ndim == 1 and v.size:
                        big = np.empty(2 * v.size + 1, dtype=v.dtype)
                        big[1::2] = v
                        big[0::2] = 0
                        args[k] = big[1::2]
                    elif isinstance(v, np.ndarray) and v.ndim == 2 and v.size:
                        args[k] = np.asfortranarray(v)
            before = {k: snap(v) for k, v in args.items() if not isinstance(v, Callback)}
            np.random.seed(0)
            res.count()
            try:
                out = spec.call(args)
                if spec.post is not None:
                    out = spec.post(out, args)
            except Exception as exc:
                msg = str(exc)
                kind = "read-only-error" if ("read-only" in msg or "readonly" in msg or "not writeable" in msg) else f"raised:{type(exc).__name__}"
                res.violation(f"{spec.name}:{pattern}:{kind}", f"{spec.name} with pattern '{pattern}' raised {type(exc).__name__}: {msg[:200]}", case)
                return None, args
            after = {k: snap(v) for k, v in args.items() if not isinstance(v, Callback)}
            res.nontrivial()
            changed = [k for k in before if differs(before[k], after[k])]
            if changed:
                res.violation(f"{spec.name}:argument-modified:{'+'.join(sorted(changed))}",
                              f"{spec.name} ({pattern}) modified its argument(s) {sorted(changed)}", case)
            for cb in cbs:
                for arr, s0 in cb.handed:
                    if snap(arr) != s0:
                        res.violation(f"{spec.name}:callback-result-modified:{cb.kind}",
                                      f"{spec.name} ({pattern}) modified an array returned by the '{cb.kind}' callback", case)
                        break
            return observe(out), args


def _spec_job(arg):
    idx, seed = arg
    spec = catalogue()[idx]
    res = WorkerResult(section="patterns")
    base, _ = run_spec(spec, "fresh", res)
    patterns = ["readonly", "noncontig"]
    if spec.same:
        patterns.append("same")
    if spec.callbacks:
        patterns += ["cb-cached"] + (["cb-ident"] if any(k in ("rhs", "integrand1", "integrand2") for _, k in spec.callbacks) else [])
    for pat in patterns:
        ref = base
        if pat == "same":
            # baseline with equal-valued but distinct arrays
            def build2(spec=spec):
                a = spec.build()
                for x, y in spec.same:
                    a[y] = np.array(a[x], copy=True)
                return a
            ref, _ = run_spec(Spec(spec.name, spec.covers, build2, spec.call, spec.post, spec.callbacks), "fresh", WorkerResult())
        if pat == "cb-ident":
            # the identity-style callback defines a different problem: compare with a fresh callback
            # computing the same values (x itself) from a copy
            obs, _ = run_spec(spec, pat, res)
            continue
        obs, _ = run_spec(spec, pat, res)
        if obs is not None and ref is not None and not same_obs(obs, ref):
            res.violation(f"{spec.name}:{pat}:result-differs-from-fresh-arguments",
                          f"{spec.name}: result with pattern '{pat}' differs from the run with fresh writable arguments",
                          {"call": spec.name, "pattern": pat})
    res.sample({"call": spec.name, "patterns": ["fresh"] + patterns})
    return res.as_dict()


def _ident_job(arg):
    """Callbacks returning their argument: the result must equal the run where the callback returns
    an equal-valued COPY (so handing back the argument itself changes nothing)."""
    idx, seed = arg
    spec = catalogue()[idx]
    res = WorkerResult(section="callback-identity")

    class CopyIdent(Callback):
        def __call__(self, *args):
            arg = args[-1] if self.kind.startswith("integrand") else args[0]
            if self.kind in ("rhs", "integrand1", "integrand2") and isinstance(arg, np.ndarray):
                return np.array(arg, dtype=float, copy=True)
            return self._value(*args)

    def run(style_cls, style):
        with warnings.catch_warnings():
            warnings.simplefilter("ignore")
            with np.errstate(all="ignore"):
                a = spec.build()
                cbs = []
                for pname, kind in spec.callbacks:
                    cb = style_cls(kind, style)
                    a[pname] = cb
                    cbs.append(cb)
                np.random.seed(0)
                out = spec.call(a)
                if spec.post is not None:
                    out = spec.post(out, a)
                return observe(out)

    res.count(2)
    case = {"call": spec.name, "pattern": "cb-ident-vs-copy"}
    try:
        ref = run(CopyIdent, "fresh")
    except Exception:
        res.inadm()   # the identity-shaped problem itself is not solvable (e.g. does not converge): nothing to compare
        return res.as_dict()
    try:
        got = run(Callback, "ident")
    except Exception as exc:
        res.violation(f"{spec.name}:cb-ident:raised:{type(exc).__name__}",
                      f"{spec.name}: with a callback returning its own argument the call raised {type(exc).__name__}: {str(exc)[:150]}, "
                      f"while the same callback returning a copy works", case)
        return res.as_dict()
    res.nontrivial()
    if not same_obs(got, ref, rtol=1e-9):
        res.violation(f"{spec.name}:cb-ident:result-differs-from-copying-callback",
                      f"{spec.name}: a callback returning its argument gives a different result than one returning a copy", case)
    return res.as_dict()


def _chain_job(arg):
    fam, prefix, ib, seed = arg
    specs = catalogue()
    prefix = [prefix] if isinstance(prefix, int) else list(prefix)
    B = specs[ib]
    res = WorkerResult(section="chains")
    case = {"family": fam, "first": [specs[i].name for i in prefix], "then": B.name}
    ref, _ = run_spec(B, "fresh", WorkerResult())
    scratch = WorkerResult()
    args = None
    for ia in prefix:
        _, args = run_spec(specs[ia], "fresh", scratch, args=args)
    # B on the very same argument objects the earlier calls have just seen
    obs, _ = run_spec(B, "fresh", res, args=args)
    if obs is not None and ref is not None and not same_obs(obs, ref):
        res.violation(f"chain:{fam}:{B.name}:result-depends-on-earlier-call",
                      f"{B.name} after {case['first']} on the same argument objects differs from {B.name} on fresh arguments", case)
    return res.as_dict()


def coverage(specs):
    covered = set()
    for s in specs:
        covered.update(s.covers)
    total, with_data, missing = 0, 0, []
    for m in MODULES:
        mod = importlib.import_module("grid." + m)
        for n, o in vars(mod).items():
            if n.startswith("_") and n != "_HyperRectangleGrid" or getattr(o, "__module__", None) != mod.__name__:
                continue
            items = []
            if inspect.isfunction(o):
                items.append((n, o))
            elif inspect.isclass(o):
                items.append((n, o.__init__))
                for k, v in vars(o).items():
                    f = v.__func__ if isinstance(v, (classmethod, staticmethod)) else v
                    if (not k.startswith("_") or k in ("__getitem__", "__call__")) and inspect.isfunction(f):
                        items.append((f"{n}.{k}", f))
            for name, f in items:
                total += 1
                try:
                    params = [p for p in inspect.signature(f).parameters.values() if p.name not in ("self", "cls")]
                except (TypeError, ValueError):
                    params = []
                data_names = {"points", "weights", "x", "r", "theta", "phi", "func_vals", "density_vals", "values", "centers", "center",
                              "atcoords", "atnums", "atcorenums", "coords", "charges", "indices", "sizes", "degrees", "r_sectors",
                              "d_sectors", "s_sectors", "radius", "origin", "axes", "shape", "realvecs", "grid_list", "coeffs", "y0",
                              "bd_cond", "initial_guess_y", "x_span", "fx", "ode_params", "alphas_basis", "sph_pts", "array", "point",
                              "data", "radii", "aim_weights", "atgrids", "rgrid", "oned_grid", "integrand_function", "select", "pt_ind",
                              "centers_s", "coeffs_s", "alphas_s", "centers_p", "coeffs_p", "alphas_p", "preset", "density", "index",
                              "coord", "oned_x", "oned_y", "oned_z", "molgrid", "atomgrid", "value_arrays", "pseudo_numbers"}
                takes_data = any(p.name in data_names or any(k in str(p.annotation) for k in ("ndarray", "list", "dict", "callable"))
                                 for p in params)
                if takes_data:
                    with_data += 1
                    if name not in covered and name.split(".")[0] not in covered:
                        missing.append(name)
    return total, with_data, sorted(missing)


# ------------------------------------------------------------------------------ calls that raise
class _Boom(Exception):
    pass


def raising_catalogue():
    """(name, build, call): public operations driven into a documented error -- a rejected argument, a solver that
    gives up, a user callback that raises part-way.  "After any public operation returns (or raises)" the caller's
    arrays, lists and dictionaries must be bit-for-bit unchanged."""
    import grid.rtransform as rt
    from grid.angular import AngularGrid
    from grid.atomgrid import AtomGrid
    from grid.basegrid import Grid, OneDGrid
    from grid.becke import BeckeWeights
    from grid.coulomb import coulomb_potential
    from grid.cubic import UniformGrid
    from grid.molgrid import MolGrid
    from grid.ngrid import MultiDomainGrid
    from grid.ode import solve_ode_bvp, solve_ode_ivp
    from grid.periodicgrid import PeriodicGrid
    from grid.poisson import solve_poisson_bvp, solve_poisson_ivp

    rng = lambda: np.random.default_rng(2020)
    R = []

    def gargs():
        p = rng().uniform(-1, 1, (9, 3))
        return {"points": p, "weights": rng().uniform(0.1, 1, 9), "f": np.cos(p[:, 0]), "short": np.ones(5),
                "centers": np.array([[0.1, 0.2, 0.3], [0.0, 0.0, 0.0]]), "c2": np.array([[0.1, 0.2]]), "idx": np.array([0, 3, 30])}

    R.append(("Grid.moments[wrong-length]", gargs, lambda a: Grid(a["points"], a["weights"]).moments(2, a["centers"], a["short"])))
    R.append(("Grid.moments[unknown-type]", gargs, lambda a: Grid(a["points"], a["weights"]).moments(2, a["centers"], a["f"], "nonsense")))
    R.append(("Grid.moments[centre-dimension]", gargs, lambda a: Grid(a["points"], a["weights"]).moments(2, a["c2"], a["f"])))
    R.append(("Grid.moments[pure-radial-order-0]", gargs, lambda a: Grid(a["points"], a["weights"]).moments(0, a["centers"], a["f"], "pure-radial")))
    R.append(("Grid.integrate[wrong-length]", gargs, lambda a: Grid(a["points"], a["weights"]).integrate(a["f"], a["short"])))
    R.append(("Grid()[length-mismatch]", gargs, lambda a: Grid(a["points"], a["short"])))
    R.append(("Grid.__getitem__[out-of-range]", gargs, lambda a: Grid(a["points"], a["weights"])[a["idx"]]))
    R.append(("Grid.get_localgrid[negative-radius]", gargs, lambda a: Grid(a["points"], a["weights"]).get_localgrid(a["centers"][0], -1.0)))
    R.append(("OneDGrid()[outside-domain]", gargs, lambda a: OneDGrid(np.sort(a["points"][:, 0]) * 5, a["weights"], (-1, 1))))

    def aargs():
        return {"rg": _rgrid(6), "degrees": [3, 5, 1000, 3, 3, 3], "short": [3, 5], "sizes": np.array([6, 14, 26, 99999, 6, 6]),
                "center": np.array([0.1, 0.2, 0.3]), "c2": np.array([0.1, 0.2]), "r_sectors": [0.5, 1.0], "d_sectors": [3, 5],
                "f": np.ones(5)}

    R.append(("AtomGrid()[degree-above-maximum]", aargs, lambda a: AtomGrid(a["rg"], degrees=a["degrees"], center=a["center"])))
    R.append(("AtomGrid()[wrong-number-of-degrees]", aargs, lambda a: AtomGrid(a["rg"], degrees=a["short"], center=a["center"])))
    R.append(("AtomGrid()[size-above-maximum]", aargs, lambda a: AtomGrid(a["rg"], degrees=None, sizes=a["sizes"], center=a["center"])))
    R.append(("AtomGrid()[centre-shape]", aargs, lambda a: AtomGrid(a["rg"], degrees=[3], center=a["c2"])))
    R.append(("AtomGrid.from_pruned[sector-mismatch]", aargs, lambda a: AtomGrid.from_pruned(a["rg"], 1.0, r_sectors=a["r_sectors"], d_sectors=a["d_sectors"], center=a["center"])))
    R.append(("AtomGrid.integrate_angular_coordinates[wrong-length]", aargs, lambda a: AtomGrid(a["rg"], degrees=[3]).integrate_angular_coordinates(a["f"])))
    R.append(("AtomGrid.spherical_average[wrong-length]", aargs, lambda a: AtomGrid(a["rg"], degrees=[3]).spherical_average(a["f"])))
    R.append(("AtomGrid.interpolate[wrong-length]", aargs, lambda a: AtomGrid(a["rg"], degrees=[3]).interpolate(a["f"])))
    R.append(("AngularGrid.convert_angular_sizes_to_degrees[above-maximum]", aargs, lambda a: AngularGrid.convert_angular_sizes_to_degrees(a["sizes"], "lebedev")))

    def margs():
        return {"atnums": np.array([1, 8]), "atcoords": np.array([[0.0, 0.0, -0.7], [0.0, 0.1, 0.7]]), "rg": _rgrid(6),
                "three": np.array([[0.0, 0.0, 0.0], [1.0, 0, 0], [0, 1.0, 0]]), "aim": np.ones(7), "pts": rng().uniform(-1, 1, (10, 3)),
                "pt_ind": [0, 5, 10], "select": [0, 1, 1], "sectors": [[0.5, 1.0], [0.5]], "degs": [[3, 5, 7], [3, 5, 7]]}

    R.append(("MolGrid.from_size[coordinate-count]", margs, lambda a: MolGrid.from_size(a["atnums"], a["three"], 26, rgrid=a["rg"], aim_weights=BeckeWeights())))
    R.append(("MolGrid()[aim-weights-length]", margs, lambda a: MolGrid(a["atnums"], [_atom((0, 0, -0.7), 6, 3), _atom((0, 0.1, 0.7), 6, 3)], a["aim"])))
    R.append(("MolGrid.from_pruned[sector-mismatch]", margs, lambda a: MolGrid.from_pruned(a["atnums"], a["atcoords"], 1.0, a["sectors"], a["rg"], BeckeWeights(), d_sectors=a["degs"])))
    R.append(("MolGrid.get_atomic_grid[out-of-range]", margs, lambda a: _mol(False).get_atomic_grid(5)))
    R.append(("BeckeWeights.generate_weights[select-mismatch]", margs, lambda a: BeckeWeights().generate_weights(a["pts"], a["atcoords"], a["atnums"], select=a["select"], pt_ind=a["pt_ind"])))
    R.append(("BeckeWeights.compute_weights[select-mismatch]", margs, lambda a: BeckeWeights().compute_weights(a["pts"], a["atcoords"], a["atnums"], select=a["select"], pt_ind=a["pt_ind"])))
    R.append(("solve_poisson_bvp[molgrid-not-stored]", margs, lambda a: solve_poisson_bvp(_mol(False), np.ones(_mol(False).size), rt.InverseRTransform(rt.BeckeRTransform(1e-4, 1.5)))))

    def cargs():
        return {"points": rng().uniform(-1, 1, (6, 3)), "cs": np.array([[0.0, 0, 0], [0, 0, 1.0]]), "co": np.array([1.0, 0.5]), "al": np.array([1.0, 2.0]),
                "bad": np.array([1.0, -2.0]), "cp": np.array([[0.0, 0.5, 0]]), "three": np.array([1.0, 2.0, 3.0])}

    R.append(("coulomb_potential[partial-p]", cargs, lambda a: coulomb_potential(a["points"], a["cs"], a["co"], a["al"], centers_p=a["cp"])))
    R.append(("coulomb_potential[length-mismatch]", cargs, lambda a: coulomb_potential(a["points"], a["cs"], a["co"], a["three"])))
    R.append(("coulomb_potential[negative-exponent]", cargs, lambda a: coulomb_potential(a["points"], a["cs"], a["co"], a["bad"])))

    def uargs():
        return {"origin": np.array([-1.0, -1.0, -1.0]), "axes": np.diag([0.3, 0.3, 0.3]), "shape": np.array([7, 7, 7]), "vals": np.ones(10),
                "q": np.array([[0.1, 0.2, 0.3]]), "skew": np.array([[0.3, 0.1, 0], [0, 0.3, 0], [0, 0, 0.3]]), "sing": np.zeros((3, 3)),
                "o2": np.array([0.0, 0.0]), "a2": np.diag([0.5, 0.5]), "s2": np.array([3, 3])}

    R.append(("UniformGrid.interpolate[wrong-length]", uargs, lambda a: UniformGrid(a["origin"], a["axes"], a["shape"]).interpolate(a["q"], a["vals"])))
    R.append(("UniformGrid.interpolate[two-dimensional]", uargs, lambda a: UniformGrid(a["o2"], a["a2"], a["s2"]).interpolate(a["q"][:, :2], np.ones(9))))
    R.append(("UniformGrid.closest_point[skewed]", uargs, lambda a: UniformGrid(a["origin"], a["skew"], a["shape"]).closest_point(a["q"][0])))
    R.append(("UniformGrid()[unknown-weight]", uargs, lambda a: UniformGrid(a["origin"], a["axes"], a["shape"], weight="nonsense")))
    R.append(("UniformGrid()[singular-axes]", uargs, lambda a: UniformGrid(a["origin"], a["sing"], a["shape"])))

    def pargs():
        return {"points": rng().uniform(0, 1, (7, 3)), "weights": rng().uniform(0.1, 1, 7), "rv": np.diag([1.0, 1.2, 0.9]),
                "sing": np.array([[1.0, 0, 0], [2.0, 0, 0]]), "four": np.ones((4, 3)), "c": np.array([0.2, 0.3, 0.4])}

    R.append(("PeriodicGrid()[singular-lattice]", pargs, lambda a: PeriodicGrid(a["points"], a["weights"], a["sing"])))
    R.append(("PeriodicGrid()[too-many-vectors]", pargs, lambda a: PeriodicGrid(a["points"], a["weights"], a["four"])))
    R.append(("PeriodicGrid.get_localgrid[negative-radius]", pargs, lambda a: PeriodicGrid(a["points"], a["weights"], a["rv"]).get_localgrid(a["c"], -0.5)))
    R.append(("PeriodicGrid.get_localgrid[infinite-radius]", pargs, lambda a: PeriodicGrid(a["points"], a["weights"], a["rv"]).get_localgrid(a["c"], np.inf)))

    def oargs():
        return {"x_span": [0.0, 2.0], "mesh": np.linspace(0.0, 2.0, 12), "coeffs": [1.0, 0.5, 2.0], "y0": [1.0, -0.5], "y0_short": [1.0],
                "bd": [[0, 0, 1.0], [1, 0, 0.3]], "bd_short": [[0, 0, 1.0]], "far": [5.0, 9.0], "params": {"tol": 1e-12, "max_nodes": 14}}

    fx = lambda x: np.cos(3 * np.asarray(x, dtype=float))
    R.append(("solve_ode_ivp[wrong-number-of-initial-values]", oargs, lambda a: solve_ode_ivp(a["x_span"], fx, a["coeffs"], a["y0_short"])))
    R.append(("solve_ode_ivp[span-outside-domain]", oargs, lambda a: solve_ode_ivp(a["far"], fx, a["coeffs"], a["y0"], transform=rt.BeckeRTransform(0.1, 1.5))))
    R.append(("solve_ode_bvp[wrong-number-of-conditions]", oargs, lambda a: solve_ode_bvp(a["mesh"], fx, a["coeffs"], a["bd_short"])))
    R.append(("solve_ode_bvp[gives-up]", oargs, lambda a: solve_ode_bvp(a["mesh"], lambda x: 1e3 * np.sin(40 * np.asarray(x)), [50.0, 0.0, 1.0], a["bd"], **a["params"])))

    def cbargs():
        return {"x_span": [0.0, 2.0], "mesh": np.linspace(0.0, 2.0, 12), "coeffs": [1.0, 0.5, 2.0], "y0": np.array([1.0, -0.5]),
                "bd": [[0, 0, 1.0], [1, 0, 0.3]], "w": rng().uniform(0.1, 1, 5), "p": rng().uniform(-1, 1, 5), "count": [0]}

    def boom_after(n, value):
        def f(*args, _c=[0]):
            _c[0] += 1
            if _c[0] > n:
                raise _Boom("user callback failed")
            return value(*args)
        return f

    R.append(("solve_ode_ivp[rhs-raises]", cbargs, lambda a: solve_ode_ivp(a["x_span"], boom_after(3, lambda x: np.cos(np.asarray(x, dtype=float))), a["coeffs"], a["y0"])))
    R.append(("solve_ode_bvp[rhs-raises]", cbargs, lambda a: solve_ode_bvp(a["mesh"], boom_after(2, lambda x: np.cos(np.asarray(x, dtype=float))), a["coeffs"], a["bd"])))
    R.append(("solve_ode_ivp[coefficient-raises]", cbargs, lambda a: solve_ode_ivp(a["x_span"], lambda x: np.cos(np.asarray(x, dtype=float)),
                                                                                   [1.0, boom_after(3, lambda x: 0.5 + 0 * np.asarray(x, dtype=float)), 2.0], a["y0"])))
    R.append(("MultiDomainGrid.integrate[integrand-raises]", cbargs,
              lambda a: MultiDomainGrid([Grid(a["p"], a["w"]), Grid(a["p"], a["w"])]).integrate(boom_after(7, lambda x, y: x * y), non_vectorized=True)))
    R.append(("MultiDomainGrid.integrate[vectorised-integrand-raises]", cbargs,
              lambda a: MultiDomainGrid([Grid(a["p"], a["w"]), Grid(a["p"], a["w"])]).integrate(boom_after(2, lambda x, y: x * y))))
    return R


def _raise_job(arg):
    idx, pattern, seed = arg
    name, build, call = raising_catalogue()[idx]
    res = WorkerResult(section="raises")
    case = {"call": name, "pattern": pattern, "raises": True}
    with warnings.catch_warnings():
        warnings.simplefilter("ignore")
        with np.errstate(all="ignore"):
            args = build()
            if pattern == "readonly":
                for v in args.values():
                    set_readonly(v)
            before = {k: snap(v) for k, v in args.items()}
            np.random.seed(0)
            res.count()
            raised = None
            try:
                call(args)
            except BaseException as exc:  # noqa: BLE001
                if isinstance(exc, (KeyboardInterrupt, lattice.CaseTimeout)):
                    raise
                raised = exc
            after = {k: snap(v) for k, v in args.items()}
    if raised is None:
        res.note(f"observation (not counted): {name} did not raise")
    else:
        res.nontrivial()
        msg = str(raised)
        if pattern == "readonly" and ("read-only" in msg or "readonly" in msg or "not writeable" in msg):
            res.violation(f"{name}:readonly:read-only-error", f"{name} tried to write into a read-only argument before failing: {msg[:160]}", case)
    changed = [k for k in before if differs(before[k], after[k])]
    if changed:
        res.violation(f"{name}:argument-modified-before-raising:{'+'.join(sorted(changed))}",
                      f"{name} ({pattern}) {'raised ' + type(raised).__name__ if raised is not None else 'returned'} and left its "
                      f"argument(s) {sorted(changed)} modified", case)
    return res.as_dict()


def run(ctx):
    specs = catalogue()
    idx = [i for i, s in enumerate(specs)]
    jobs = [(i, ctx.seed) for i in idx]
    jobs.sort(key=lambda j: -specs[j[0]].slow)
    for res in lattice.pmap_unordered(_spec_job, jobs, ctx.workers):
        if len(ctx.samples) > 10:
            res["samples"] = []
        ctx.merge(res)
    ident = [(i, ctx.seed) for i, s in enumerate(specs) if any(k in ("rhs", "integrand1", "integrand2") for _, k in s.callbacks)]
    for res in lattice.pmap(_ident_job, ident, ctx.workers):
        ctx.merge(res)
    fams = {}
    for i, s in enumerate(specs):
        # (a transform that infers its scale from the first array it sees is stateful by design:
        # its call order dependence belongs to C19, not to argument aliasing)
        if s.family and "b=None" not in s.family and not s.callbacks and (not s.slow or ctx.thorough):
            fams.setdefault(s.family, []).append(i)
    chains = [(f, a, b, ctx.seed) for f, members in fams.items() for a, b in itertools.permutations(members, 2)]
    if ctx.thorough:
        # programs of three calls (two earlier calls, then the observed one) inside each family
        chains += [(f, (a, b), c, ctx.seed) for f, members in fams.items() for a, b, c in itertools.product(members, repeat=3)
                   if len({a, b, c}) >= 2]
    for res in lattice.pmap(_chain_job, chains, ctx.workers, chunksize=8):
        ctx.merge(res)
    rjobs = [(i, pat, ctx.seed) for i in range(len(raising_catalogue())) for pat in ("fresh", "readonly")]
    for res in lattice.pmap(_raise_job, rjobs, ctx.workers, chunksize=4):
        ctx.merge(res)
    total, with_data, missing = coverage(specs)
    ctx.cov["catalogue"] = {"specs": len(specs), "public_callables": total, "taking_arrays_lists_dicts_callbacks": with_data,
                            "not_covered": missing, "chains": len(chains), "families": {k: len(v) for k, v in fams.items()}}
    ctx.exhaustive = True


def replay(ctx, case):
    if case.get("raises"):
        rn = [r[0] for r in raising_catalogue()]
        return ctx.merge(_raise_job((rn.index(case["call"]), case["pattern"], ctx.seed)))
    specs = catalogue()
    names = [s.name for s in specs]
    if "family" in case:
        first = case["first"] if isinstance(case["first"], list) else [case["first"]]
        ctx.merge(_chain_job((case["family"], tuple(names.index(n) for n in first), names.index(case["then"]), ctx.seed)))
    elif case.get("pattern") == "cb-ident-vs-copy":
        ctx.merge(_ident_job((names.index(case["call"]), ctx.seed)))
    else:
        ctx.merge(_spec_job((names.index(case["call"]), ctx.seed)))
