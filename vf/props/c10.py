"""C10 -- local grids hold exactly the points inside the cutoff sphere, for any grid type and
any history of queries and reassignments; selection returns exactly the selected points.

Engine E1 (histories): one world per grid kind -- plain Grid with 1-D / 2-D / 3-D points,
a OneDGrid subclass, AngularGrid, AtomGrid (off-origin centre), MolGrid, Tensor1DGrids,
UniformGrid, LocalGrid, PeriodicGrid without lattice vectors.  Events: Q(centre, radius) for
4 centres (a grid point, generic inside, far away, just outside the bounding box) x radii {0, tiny, medium, wider-than-the-grid, huge, inf}; SP(k): ``grid.points = P_k``; SW(k):
``grid.weights = W_k`` (k = 1, 2).  Reference model = the arrays the model last assigned.
Oracle after every Q: index set == brute force {i : |p_i - c| <= r} on the *current* points,
each once; local points/weights == parent[indices]; centre echoed; inf => whole grid; empty =>
size-0 grid of the right dimensionality.  A setter a class does not offer must fail with
AttributeError and leave the grid unchanged.

Engine E2 (selection): {Grid 1-D/2-D/3-D, OneDGrid, PeriodicGrid (with and without lattice)} x
index kinds {int, negative int, np.int32/64, slices, integer arrays incl. repeats, lists,
boolean masks}: same type, exactly the selected points and weights, same domain / lattice.
"""

from __future__ import annotations

import warnings

import numpy as np

from vf import explore
from vf.cli import WorkerResult

LEVEL = "model_checking"
RULE = (
    "breadth-first over histories of local-grid queries and points/weights reassignments on one "
    "live instance per grid kind (fresh instance per history), complete up to the depth bound; "
    "selection: complete product grid kind x index kind; distinct by observation digest"
)
ASSUMPTIONS = [
    "points within 1e-12*(1+r) of the sphere surface (other than exact coincidence with the "
    "centre) are ties and are excluded from the comparison (counted)",
    "reassignment means the points/weights setters; in-place edits of arrays after a tree was "
    "built are outside the statement",
]

SELECTABLE = ("grid1d", "grid2d", "grid3d", "oned", "periodic0", "periodic0_1d")
KINDS = ("grid1d", "grid2d", "grid3d", "oned", "angular", "atom", "mol", "tensor", "uniform",
         "local", "periodic0", "periodic0_1d", "atom-rot-r0", "mol-stored", "tensor2d", "uniform2d", "grid3d-far")
# 5.0 exceeds the extent of every test grid but not the distance of the far centre (an empty
# sphere that is wider than the grid), 1e3 swallows everything
RADII = (0.0, 1e-9, 0.9, 5.0, 1e3, float("inf"))
TIE = 1e-12


def _rng(seed, tag):
    return np.random.default_rng([seed, sum(map(ord, tag))])


def make_grid(kind, seed):
    """Small instance of each grid kind (about 10-60 points)."""
    from grid.angular import AngularGrid
    from grid.atomgrid import AtomGrid
    from grid.basegrid import Grid, LocalGrid, OneDGrid
    from grid.becke import BeckeWeights
    from grid.cubic import Tensor1DGrids, UniformGrid
    from grid.molgrid import MolGrid
    from grid.onedgrid import GaussLegendre
    from grid.periodicgrid import PeriodicGrid

    rng = _rng(seed, kind)
    with warnings.catch_warnings():
        warnings.simplefilter("ignore")
        if kind == "grid1d":
            return Grid(rng.uniform(-1.5, 1.5, 12), rng.uniform(0.1, 1, 12))
        if kind == "grid2d":
            return Grid(rng.uniform(-1.5, 1.5, (14, 2)), rng.uniform(0.1, 1, 14))
        if kind == "grid3d":
            return Grid(rng.uniform(-1.5, 1.5, (16, 3)), rng.uniform(0.1, 1, 16))
        if kind == "grid3d-far":
            # the same kind of point cloud 1e5 bohr from the origin: distances must come from coordinate differences
            return Grid(rng.uniform(-1.5, 1.5, (16, 3)) + np.array([131072.0, -65536.0, 32768.0]), rng.uniform(0.1, 1, 16))
        if kind == "oned":
            return GaussLegendre(9)
        if kind == "angular":
            return AngularGrid(degree=5, cache=False)
        rg = OneDGrid(np.array([0.2, 0.6, 1.1]), np.array([0.3, 0.4, 0.5]), (0, np.inf))
        if kind == "atom":
            return AtomGrid(rg, degrees=[3, 5, 3], center=np.array([0.4, -0.3, 0.2]), rotate=0)
        if kind == "mol":
            g1 = AtomGrid(rg, degrees=[3], center=np.array([0.0, 0.0, -0.6]))
            g2 = AtomGrid(rg, degrees=[3], center=np.array([0.0, 0.2, 0.6]))
            return MolGrid(np.array([1, 8]), [g1, g2], BeckeWeights(), store=False)
        if kind == "atom-rot-r0":
            # a shell at r = 0 (its points all coincide with the centre: "each once" over coincident parent points)
            rg0 = OneDGrid(np.array([0.0, 0.5, 1.2]), np.array([0.2, 0.4, 0.5]), (0, np.inf))
            return AtomGrid(rg0, degrees=[3, 3, 5], center=np.array([-0.2, 0.3, 0.1]), rotate=7)
        if kind == "mol-stored":
            g1 = AtomGrid(rg, degrees=[3], center=np.array([0.0, 0.0, -0.6]))
            g2 = AtomGrid(rg, degrees=[3], center=np.array([0.0, 0.2, 0.6]))
            return MolGrid(np.array([1, 8]), [g1, g2], BeckeWeights(), store=True)
        if kind == "tensor2d":
            return Tensor1DGrids(GaussLegendre(4), GaussLegendre(3))
        if kind == "uniform2d":
            return UniformGrid(np.array([-1.0, -0.5]), np.array([[0.7, 0.1], [0.0, 0.6]]), np.array([4, 3]))
        if kind == "tensor":
            return Tensor1DGrids(GaussLegendre(3), GaussLegendre(2), GaussLegendre(4))
        if kind == "uniform":
            return UniformGrid(np.array([-1.0, -0.5, -0.7]),
                               np.array([[0.7, 0.0, 0.0], [0.1, 0.6, 0.0], [0.0, 0.0, 0.5]]),
                               np.array([3, 3, 4]))
        if kind == "local":
            return LocalGrid(rng.uniform(-1.5, 1.5, (10, 3)), rng.uniform(0.1, 1, 10),
                             np.zeros(3), np.arange(10))
        if kind == "periodic0":
            return PeriodicGrid(rng.uniform(-1.5, 1.5, (12, 3)), rng.uniform(0.1, 1, 12))
        if kind == "periodic0_1d":
            return PeriodicGrid(rng.uniform(-1.5, 1.5, 11), rng.uniform(0.1, 1, 11))
    raise ValueError(kind)


def brute(points, center, radius):
    """(inside indices, tie indices)."""
    pts = np.asarray(points, dtype=float).reshape(len(points), -1)
    c = np.atleast_1d(np.asarray(center, dtype=float))
    d = np.sqrt(np.sum((pts - c) ** 2, axis=1))
    if radius == np.inf:
        return np.arange(len(pts)), np.zeros(0, dtype=int)
    tie = (np.abs(d - radius) <= TIE * (1 + radius)) & ~((d == 0) & (radius == 0))
    inside = (d <= radius) & ~tie
    return np.nonzero(inside)[0], np.nonzero(tie)[0]


def check_local(local, points, weights, center, radius, bad, tag):
    """Compare a LocalGrid against the brute-force reference; ``bad(key, what, **det)``."""
    ties = 0
    try:
        idx = np.asarray(local.indices)
        lp = np.asarray(local.points)
        lw = np.asarray(local.weights)
    except Exception as exc:  # pragma: no cover
        bad(f"{tag}:malformed-local-grid", f"local grid attributes unreadable: {exc}")
        return 0
    ref, tie = brute(points, center, radius)
    ties = len(tie)
    if idx.ndim != 1 or (idx.size and not np.issubdtype(idx.dtype, np.integer)):
        bad(f"{tag}:indices-malformed", f"indices have dtype {idx.dtype}, shape {idx.shape}")
        return ties
    idx = idx.astype(int)
    if len(set(idx.tolist())) != len(idx):
        bad(f"{tag}:duplicate-indices", "a parent point appears more than once")
    got = set(idx.tolist()) - set(tie.tolist())
    want = set(ref.tolist())
    if got != want:
        sig = "missing" if want - got and not got - want else ("extra" if got - want and not want - got else "wrong")
        bad(f"{tag}:index-set-{sig}",
            f"indices differ from brute force on the current points: missing={sorted(want - got)[:6]} "
            f"extra={sorted(got - want)[:6]} (center={np.asarray(center).tolist()}, radius={radius})")
        return ties
    if lp.shape != (len(idx),) + np.asarray(points).shape[1:]:
        bad(f"{tag}:points-shape", f"local points have shape {lp.shape} for {len(idx)} indices of a "
            f"parent with point shape {np.asarray(points).shape[1:]}")
        return ties
    if lw.shape != (len(idx),):
        bad(f"{tag}:weights-shape", f"local weights have shape {lw.shape} for {len(idx)} indices")
        return ties
    if len(idx) and not np.array_equal(lp, np.asarray(points)[idx]):
        bad(f"{tag}:points-not-parent", "local points are not parent.points[indices] of the current points")
    if len(idx) and not np.array_equal(lw, np.asarray(weights)[idx]):
        bad(f"{tag}:weights-not-parent", "local weights are not parent.weights[indices] of the current weights")
    if not np.array_equal(np.asarray(local.center), np.asarray(center)):
        bad(f"{tag}:center-not-echoed", "local grid does not echo the query centre")
    if local.size != len(idx):
        bad(f"{tag}:size", f"local size {local.size} for {len(idx)} indices")
    return ties


class World:
    def __init__(self, seed, kind="grid3d", small=False):
        self.seed = seed
        self.kind = kind
        # small=True: two centres x two radii only, plus the event EL "the caller edits the local grid it was
        # handed last, in place" (added after seeded change C11-D: returned local grids memoised per query)
        self.small = small
        self.last = None       # (ci, ri, local grid) of the latest query
        self.edited = False
        self.violations = []
        self.pv = self.wv = 0
        try:
            self.grid = make_grid(kind, seed)
        except Exception as exc:
            # building the (documented-legal) instance is part of the behaviour under test
            self.grid = None
            self.P = self.W = []
            self._bad(f"construct:raised:{type(exc).__name__}",
                      f"constructing the {kind} instance raised {type(exc).__name__}: {exc}")
            return
        p0 = np.array(self.grid.points, dtype=float)
        w0 = np.array(self.grid.weights, dtype=float)
        # (a OneDGrid declares a domain: reassigned points stay inside it)
        self.P = [p0, (0.9 * p0 + 0.05) if kind == "oned" else p0 + 0.3, 0.5 * p0[::-1].copy()]
        self.W = [w0, w0 * 2.0, w0[::-1].copy() + 0.1]
        self.ties = 0
        self.nsel = 0
        c = p0.reshape(len(p0), -1)
        dim = c.shape[1]
        gen = np.array([0.13, -0.21, 0.34])[:dim]
        far = np.array([40.0, 35.0, -50.0])[:dim]
        # a centre just outside the bounding box: spheres around it cut the grid partially
        edge = c.min(axis=0) - np.array([2.1, 0.4, 0.9])[:dim]
        self.centres = [c[len(c) // 2].copy(), gen, far, edge]
        if small:
            # a fifth centre 1e-7 away from the first: distinct queries that a tolerance-keyed memo would confuse
            self.centres.append(self.centres[0] + 1e-7)
        if p0.ndim == 1:
            self.centres = [np.float64(v[0]) for v in self.centres]

    def _bad(self, key, what, **det):
        self.violations.append((f"{self.kind}:{key}", what, det))

    def enabled(self):
        if self.grid is None:
            return []
        if self.small:
            evs = [("Q", ci, ri) for ci in (0, 3, 4) for ri in (2, 3)] + [("SW", 1), ("SP", 1)]
            if self.pv == 0:
                evs.append(("SPA",))
            if self.last is not None and not self.edited:
                evs.append(("EL",))
            return evs
        evs = [("Q", ci, ri) for ci in range(len(self.centres)) for ri in range(len(RADII))
               # radius=inf on a PeriodicGrid is the "behaves as the plain grid" clause of C11
               # (checked and reported there), not part of C10's list of grid kinds
               if not (self.kind.startswith("periodic") and RADII[ri] == np.inf)]
        evs += [("SP", 1), ("SP", 2), ("SW", 1), ("SW", 2)]
        # augmented assignment through the property (grid.points += s): Python edits the array the getter returned and
        # then calls the setter with that same object -- a reassignment like any other (seeded change C10-E)
        if self.pv == 0:
            evs.append(("SPA",))
        if self.wv == 0:
            evs.append(("SWA",))
        if self.kind in SELECTABLE and self.nsel < 1:
            # SEL(k): continue with the selection grid[index_k] (it must not inherit anything, e.g. a
            # neighbour tree, from its parent).  Added after seeded change C11-B was missed.
            evs += [("SEL", 0), ("SEL", 1)]
        return evs

    def apply(self, ev):
        g = self.grid
        with warnings.catch_warnings():
            warnings.simplefilter("ignore")
            if ev[0] == "Q":
                c, r = self.centres[ev[1]], RADII[ev[2]]
                tag = "Q"
                try:
                    loc = g.get_localgrid(c, r)
                except Exception as exc:
                    self._bad(f"Q:raised:{type(exc).__name__}",
                              f"get_localgrid(center={np.asarray(c).tolist()}, radius={r}) raised "
                              f"{type(exc).__name__}: {exc}")
                    return ("exc", type(exc).__name__)
                self.ties += check_local(loc, self.P[self.pv], self.W[self.wv], c, r, self._bad, tag)
                self.last, self.edited = (ev[1], ev[2], loc), False
                # the grid itself must be untouched by a query
                if not (np.array_equal(g.points, self.P[self.pv]) and np.array_equal(g.weights, self.W[self.wv])):
                    self._bad("Q:grid-modified", "a query changed the grid's points or weights")
                return ("Q", len(loc.indices), explore._digest(np.sort(np.asarray(loc.indices)).tolist()))
            if ev[0] == "EL":
                loc = self.last[2]
                try:
                    np.asarray(loc.weights)[...] *= 3.0
                    np.asarray(loc.points)[...] += 0.7
                    np.asarray(loc.indices)[...] = 0
                except ValueError:
                    pass      # read-only arrays are a legitimate way to protect them
                self.edited = True
                if not (np.array_equal(g.points, self.P[self.pv]) and np.array_equal(g.weights, self.W[self.wv])):
                    self._bad("EL:parent-changed", "editing a local grid in place changed the parent grid's points or weights")
                return ("EL",)
            if ev[0] in ("SPA", "SWA"):
                # version 1 of the reference arrays is version 0 after exactly this update
                try:
                    if ev[0] == "SPA":
                        if self.kind == "oned":
                            g.points *= 0.9
                            g.points += 0.05
                        else:
                            g.points += 0.3
                        self.pv = 1
                    else:
                        g.weights *= 2.0
                        self.wv = 1
                    ok = True
                except AttributeError:
                    ok = False      # no setter: the getter's array may be a temporary; the state must not change
                except Exception as exc:
                    self._bad(f"{ev[0]}:raised:{type(exc).__name__}", f"augmented assignment raised {type(exc).__name__}: {exc}")
                    return ("exc", type(exc).__name__)
                if not ok:
                    # classes whose getter hands out the stored array have been edited in place although the setter refused:
                    # follow whatever the object holds now if it is one of the two versions, else report
                    for k, p in enumerate(self.P):
                        if ev[0] == "SPA" and np.array_equal(g.points, p):
                            self.pv = k
                    for k, w in enumerate(self.W):
                        if ev[0] == "SWA" and np.array_equal(g.weights, w):
                            self.wv = k
                if not (np.allclose(g.points, self.P[self.pv], rtol=1e-15, atol=1e-15) and np.allclose(g.weights, self.W[self.wv], rtol=1e-15, atol=0)):
                    self._bad(f"{ev[0]}:state-mismatch", f"after the augmented assignment (accepted={ok}) the grid holds neither the "
                              f"old nor the updated array")
                else:
                    # continue with the arrays the object really holds (the update may differ from the reference by an ulp)
                    self.P[self.pv] = np.array(g.points, dtype=float)
                    self.W[self.wv] = np.array(g.weights, dtype=float)
                return (ev[0], ok)
            kind, k = ev
            if kind == "SEL":
                n = len(self.P[self.pv])
                index = slice(2, None) if k == 0 else np.arange(n)[::-1][: n - 3]
                try:
                    sub = g[index]
                except Exception as exc:
                    self._bad(f"SEL:raised:{type(exc).__name__}", f"selection raised {type(exc).__name__}: {exc}")
                    return ("exc", type(exc).__name__)
                self.grid = sub
                self.P = [p[index] for p in self.P]
                self.W = [w[index] for w in self.W]
                self.nsel += 1
                if not (np.array_equal(sub.points, self.P[self.pv]) and np.array_equal(sub.weights, self.W[self.wv])):
                    self._bad("SEL:wrong-content", "the selection does not hold exactly the selected points / weights")
                return ("SEL", k, len(self.P[0]))
            attr = "points" if kind == "SP" else "weights"
            new = (self.P if kind == "SP" else self.W)[k].copy()
            try:
                setattr(g, attr, new)
                if kind == "SP":
                    self.pv = k
                else:
                    self.wv = k
                ok = True
            except AttributeError:
                ok = False  # the class offers no setter: must leave the state unchanged
            except Exception as exc:
                self._bad(f"{kind}:raised:{type(exc).__name__}",
                          f"assigning {attr} raised {type(exc).__name__}: {exc}")
                return ("exc", type(exc).__name__)
            if not (np.array_equal(g.points, self.P[self.pv]) and np.array_equal(g.weights, self.W[self.wv])):
                self._bad(f"{kind}:state-mismatch",
                          f"after assigning {attr} (accepted={ok}) the grid does not hold the arrays "
                          f"the reference model holds")
            return (kind, k, ok)

    def canon(self):
        """Future observations depend on the current arrays (versions) and on which array the
        lazily built tree indexes (or none).  The tree is identified by content."""
        if self.grid is None:
            return (self.kind, "unconstructible")
        tree = getattr(self.grid, "_kdtree", None)
        tv = "none"
        if tree is not None:
            # (whatever object the class keeps there: only a plain tree exposes the array it indexes)
            data = np.asarray(getattr(tree, "data", np.zeros(0)))
            tv = "other"
            for k, p in enumerate(self.P):
                if data.shape == p.reshape(len(p), -1).shape and np.array_equal(data, p.reshape(len(p), -1)):
                    tv = k
        if self.small:
            # a memo of handed-out local grids is hidden state: which query was answered last, and whether its answer
            # was edited, decide what such a memo would return
            return (self.kind, self.pv, self.wv, tv, None if self.last is None else self.last[:2], self.edited)
        return (self.kind, self.pv, self.wv, tv, self.nsel, len(self.P[0]))


# ------------------------------------------------------------------------------ selection (E2)
def _sel_grids(seed):
    from grid.basegrid import Grid, OneDGrid
    from grid.onedgrid import GaussLegendre
    from grid.periodicgrid import PeriodicGrid

    rng = _rng(seed, "sel")
    out = {}
    out["Grid1d"] = (Grid(rng.uniform(-1, 1, 7), rng.uniform(0.1, 1, 7)), Grid)
    out["Grid2d"] = (Grid(rng.uniform(-1, 1, (7, 2)), rng.uniform(0.1, 1, 7)), Grid)
    out["Grid3d"] = (Grid(rng.uniform(-1, 1, (7, 3)), rng.uniform(0.1, 1, 7)), Grid)
    out["OneDGrid"] = (OneDGrid(np.sort(rng.uniform(-1, 1, 7)), rng.uniform(0.1, 1, 7), (-1, 1)), OneDGrid)
    out["GaussLegendre"] = (GaussLegendre(7), OneDGrid)
    out["OneDGrid-nodomain"] = (OneDGrid(np.sort(rng.uniform(-1, 1, 7)), rng.uniform(0.1, 1, 7)), OneDGrid)
    with warnings.catch_warnings():
        warnings.simplefilter("ignore")
        out["Periodic3d"] = (PeriodicGrid(rng.uniform(0, 1, (7, 3)), rng.uniform(0.1, 1, 7),
                                          np.array([[1.0, 0, 0], [0.2, 1.1, 0], [0, 0.1, 0.9]])), PeriodicGrid)
        out["Periodic2d1v"] = (PeriodicGrid(rng.uniform(0, 1, (7, 2)), rng.uniform(0.1, 1, 7),
                                            np.array([[1.0, 0.3]])), PeriodicGrid)
        out["Periodic1d"] = (PeriodicGrid(rng.uniform(0, 1, 7), rng.uniform(0.1, 1, 7), np.array([1.2])), PeriodicGrid)
        out["Periodic3d0v"] = (PeriodicGrid(rng.uniform(0, 1, (7, 3)), rng.uniform(0.1, 1, 7)), PeriodicGrid)
    return out


INDEXES = [
    ("int0", 0), ("int3", 3), ("int-1", -1), ("int-7", -7),
    ("np.int64", np.int64(2)), ("np.int32", np.int32(5)), ("np.int64-neg", np.int64(-2)),
    ("np.intp", np.intp(1)), ("np.uint8", np.uint8(4)),
    ("slice-all", slice(None)), ("slice-1:4", slice(1, 4)), ("slice-step2", slice(None, None, 2)),
    ("slice-rev", slice(None, None, -1)), ("slice-neg", slice(-3, None)), ("slice-one", slice(2, 3)),
    ("array", np.array([4, 0, 2])), ("array-repeat", np.array([1, 1, 5, 1])), ("array-neg", np.array([-1, 0])),
    ("array-one", np.array([3])), ("list", [0, 6, 3]), ("list-repeat", [2, 2]),
    ("mask", np.array([True, False, True, True, False, False, True])),
    ("mask-one", np.array([False, False, False, True, False, False, False])),
    ("mask-all", np.ones(7, dtype=bool)),
    # a mask handed over as a plain list (of Python bools, of NumPy bools): NumPy treats it as a mask, so must the grid
    ("mask-list", [True, False, True, True, False, False, True]),
    ("mask-list-np-bools", list(np.array([False, True, False, False, True, True, False]))),
    ("array-int32", np.array([4, 0, 2], dtype=np.int32)), ("array-uint", np.array([6, 1], dtype=np.uint16)),
]
EMPTY_INDEXES = [
    ("slice-empty", slice(3, 3)), ("array-empty", np.zeros(0, dtype=int)),
    ("mask-none", np.zeros(7, dtype=bool)),
]


def _select_case(gname, iname, seed, res):
    grids = _sel_grids(seed)
    g, base = grids[gname]
    index = dict(INDEXES + EMPTY_INDEXES)[iname]
    case = {"route": "select", "grid": gname, "index": iname}
    res.count()
    p0 = np.array(g.points)
    w0 = np.array(g.weights)
    if isinstance(index, (int, np.integer)):
        ep, ew = p0[[int(index)]], w0[[int(index)]]
    else:
        ref_index = np.asarray(index) if isinstance(index, list) else index
        ep, ew = p0[ref_index], w0[ref_index]
    try:
        with warnings.catch_warnings():
            warnings.simplefilter("ignore")
            sub = g[index]
    except Exception as exc:
        res.violation(f"select:{base.__name__}:{iname}:raised:{type(exc).__name__}",
                      f"{gname}[{iname}] raised {type(exc).__name__}: {exc}", case)
        return
    res.nontrivial()
    if not isinstance(sub, base):
        res.violation(f"select:{base.__name__}:{iname}:wrong-type",
                      f"{gname}[{iname}] returned {type(sub).__name__}", case)
        return
    if not (np.array_equal(np.asarray(sub.points), ep) and np.array_equal(np.asarray(sub.weights), ew)):
        res.violation(f"select:{base.__name__}:{iname}:wrong-content",
                      f"{gname}[{iname}] does not hold exactly the selected points/weights "
                      f"(shapes {np.asarray(sub.points).shape} vs {ep.shape})", case)
    if hasattr(g, "domain") and sub.domain != g.domain:
        res.violation(f"select:{base.__name__}:{iname}:domain-changed",
                      f"{gname}[{iname}] has domain {sub.domain}, parent {g.domain}", case)
    if hasattr(g, "realvecs") and not np.array_equal(sub.realvecs, g.realvecs):
        res.violation(f"select:{base.__name__}:{iname}:lattice-changed",
                      f"{gname}[{iname}] changed the lattice vectors", case)
    if not (np.array_equal(g.points, p0) and np.array_equal(g.weights, w0)):
        res.violation(f"select:{base.__name__}:{iname}:parent-modified", "selection modified the parent", case)
    # the selection must be independent of the parent (no view that a later edit would share)
    if np.asarray(sub.points).size and np.shares_memory(sub.points, g.points):
        res.note(f"{gname}[{iname}] shares memory with the parent (observation, not counted)")


def run_exact_surface(ctx):
    """Points at EXACTLY the radius (integer coordinates, distances 3, 5, 13 exact in floating point) belong to the local
    grid ("at most the radius"), and the documented argument forms of centre and radius give the same answer."""
    from grid.basegrid import Grid, LocalGrid, OneDGrid
    from grid.periodicgrid import PeriodicGrid

    p3 = np.array([[3.0, 4.0, 0.0], [0.0, -5.0, 0.0], [0.0, 0.0, 5.0], [1.0, 2.0, 2.0], [0.0, 3.0, 0.0], [4.0, 3.0, 0.0], [5.0, 12.0, 0.0],
                   [0.0, 0.0, 0.0], [3.0, 4.0, 1.0], [2.0, 2.0, 1.0], [-3.0, 0.0, -4.0], [6.0, 0.0, 0.0]])
    w3 = np.arange(1.0, 13.0)
    p1 = np.array([-5.0, -3.0, -1.0, 0.0, 2.0, 3.0, 5.0, 13.0])
    w1 = np.arange(1.0, 9.0)
    with warnings.catch_warnings():
        warnings.simplefilter("ignore")
        grids = {
            "Grid3d": (Grid(p3.copy(), w3.copy()), p3, w3), "Grid2d": (Grid(p3[:, :2].copy(), w3.copy()), p3[:, :2], w3),
            "Grid1d": (Grid(p1.copy(), w1.copy()), p1, w1), "OneDGrid": (OneDGrid(p1.copy(), w1.copy(), (-20, 20)), p1, w1),
            "LocalGrid": (LocalGrid(p3.copy(), w3.copy(), np.zeros(3), np.arange(12)), p3, w3),
            "Periodic-no-lattice": (PeriodicGrid(p3.copy(), w3.copy()), p3, w3),
        }
    for gname, (g, pts, w) in grids.items():
        dim = 1 if pts.ndim == 1 else pts.shape[1]
        for radius in (3.0, 5.0, 13.0, 0.0, 4.999999999, 5.000000001):
            c = np.zeros(dim)
            d = np.abs(pts) if dim == 1 else np.sqrt(np.sum(pts**2, axis=1))
            want = sorted(np.nonzero(d <= radius)[0].tolist())
            forms = [("ndarray", c if dim > 1 else np.float64(0.0), radius), ("np.float64-radius", c if dim > 1 else np.float64(0.0), np.float64(radius)),
                     ("list-centre", [0.0] * dim if dim > 1 else 0.0, radius)]
            if float(radius).is_integer():
                forms.append(("int-radius", c if dim > 1 else np.float64(0.0), int(radius)))
            for fname, centre, rad in forms:
                ctx.count(section="exact-surface")
                case = {"route": "exact", "grid": gname, "radius": radius, "form": fname}
                try:
                    with warnings.catch_warnings():
                        warnings.simplefilter("ignore")
                        loc = g.get_localgrid(centre, rad)
                except Exception as exc:
                    if fname in ("list-centre",):
                        # the docstrings type the centre as ndarray (float for 1-D): refusing another form is acceptable
                        ctx.inadm(section="exact-surface")
                        continue
                    ctx.violation(f"exact-surface:{fname}:raised:{type(exc).__name__}", f"{gname}.get_localgrid({centre!r}, {rad!r}) raised "
                                  f"{type(exc).__name__}: {exc}", case)
                    continue
                got = sorted(np.asarray(loc.indices).astype(int).tolist())
                ctx.nontrivial(("exact", gname, radius, fname), section="exact-surface")
                if got != want:
                    onsurf = sorted(np.nonzero(d == radius)[0].tolist())
                    sig = "points-on-the-sphere-excluded" if sorted(set(want) - set(got)) and set(want) - set(got) <= set(onsurf) and not set(got) - set(want) else "wrong-set"
                    ctx.violation(f"exact-surface:{sig}", f"{gname}.get_localgrid(0, {rad!r}) [{fname}] returns parent indices {got}, the points "
                                  f"with distance <= {radius} are {want} (exactly on the sphere: {onsurf})", case)
                elif len(got) and not (np.array_equal(np.asarray(loc.weights), w[got]) or np.array_equal(np.sort(np.asarray(loc.weights)), np.sort(w[got]))):
                    ctx.violation("exact-surface:weights", f"{gname}: local weights are not the parent weights", case)


def run_selection(ctx):
    res = WorkerResult(section="selection")
    names = list(_sel_grids(ctx.seed))
    for gname in names:
        for iname, _ in INDEXES + EMPTY_INDEXES:
            _select_case(gname, iname, ctx.seed, res)
    # grid types that do not support selection: a clean refusal, or else exactly the selected points and weights
    for kind in KINDS:
        if kind in SELECTABLE or kind.startswith("mol"):
            continue          # (MolGrid[i] is the i-th atomic grid, not a selection of points: property C07)
        g = make_grid(kind, ctx.seed)
        p0, w0 = np.array(g.points), np.array(g.weights)
        for iname, index in (("int", 1), ("slice", slice(1, 4)), ("array", np.array([2, 0]))):
            res.count()
            try:
                with warnings.catch_warnings():
                    warnings.simplefilter("ignore")
                    sub = g[index]
            except Exception:
                res.inadm()
                continue
            res.nontrivial()
            ep, ew = np.atleast_1d(w0[index]), None
            if not (np.array_equal(np.asarray(sub.weights), np.atleast_1d(w0[index]))
                    and np.array_equal(np.asarray(sub.points).reshape(len(ep), -1), np.asarray(p0[index]).reshape(len(ep), -1))):
                res.violation(f"select:{kind}:{iname}:wrong-content", f"{kind}[{iname}] is accepted but does not hold exactly the selected "
                              f"points and weights", {"route": "select-unsupported", "kind": kind, "index": iname})
    res.sample({"route": "select", "grid": "GaussLegendre", "index": "np.int64"})
    ctx.merge(res.as_dict())
    ctx.cov["selection"] = {"grids": names, "index_kinds": [n for n, _ in INDEXES + EMPTY_INDEXES]}


def run_centre_forms(ctx):
    """Forms of the centre argument (added after seeded change C11-I, which truncated a centre handed over in an integer
    dtype): a centre with whole-number coordinates given as an int64 / int32 array, a list, a tuple (a Python / NumPy int
    for one-dimensional grids) gives exactly the local grid of the same centre in floats, for every grid kind."""
    for kind in KINDS:
        g = make_grid(kind, ctx.seed)
        pts = np.asarray(g.points, dtype=float)
        dim = 1 if pts.ndim == 1 else pts.shape[1]
        w = np.asarray(g.weights, dtype=float)
        base = np.round(pts.reshape(len(pts), -1).mean(axis=0)).astype(int)
        for shift in ([0, 0, 0], [1, -1, 0], [0, 1, -1]):
            ic = base + np.array(shift)[:dim]
            fc = ic.astype(float)
            if dim == 1:
                forms = [("int", int(ic[0])), ("int64", np.int64(ic[0])), ("int32", np.int32(ic[0]))]
                fcen = np.float64(fc[0])
            else:
                forms = [("int64", ic.astype(np.int64)), ("int32", ic.astype(np.int32)), ("list", [int(v) for v in ic]), ("tuple", tuple(int(v) for v in ic))]
                fcen = fc
            for r in (0.75, 1.3, 2.6):
                try:
                    with warnings.catch_warnings():
                        warnings.simplefilter("ignore")
                        want = g.get_localgrid(fcen, r)
                except Exception as exc:
                    ctx.violation(f"centre-form:{kind}:float-centre-raised:{type(exc).__name__}", f"{kind}: get_localgrid({fc.tolist()}, {r}): {exc}",
                                  {"route": "centre-forms", "kind": kind})
                    continue
                bad = lambda key, what, **det: ctx.violation(key, f"{kind}: {what}", {"route": "centre-forms", "kind": kind, "centre": ic.tolist(), "radius": r})
                ctx.count(section="centre-forms")
                check_local(want, pts, w, fcen, r, bad, f"centre-form:{kind}:float")
                for fname, c in forms:
                    ctx.count(section="centre-forms")
                    case = {"route": "centre-forms", "kind": kind, "centre": ic.tolist(), "form": fname, "radius": r}
                    try:
                        with warnings.catch_warnings():
                            warnings.simplefilter("ignore")
                            got = g.get_localgrid(c, r)
                    except Exception as exc:
                        if fname in ("list", "tuple") and isinstance(exc, (AttributeError, TypeError, ValueError)):
                            ctx.inadm(section="centre-forms")   # sequences are not among the documented forms (np.ndarray / float)
                            continue
                        ctx.violation(f"centre-form:{kind}:raised:{type(exc).__name__}", f"{kind}: get_localgrid(centre {ic.tolist()} as {fname}, {r}) "
                                      f"raised {type(exc).__name__}: {exc}; the same centre in floats is answered", case)
                        continue
                    ctx.nontrivial(("centre-forms", kind, tuple(shift), fname, r), section="centre-forms")
                    if not np.array_equal(np.asarray(got.indices), np.asarray(want.indices)) or not np.array_equal(np.asarray(got.points), np.asarray(want.points)) \
                            or not np.array_equal(np.asarray(got.weights), np.asarray(want.weights)):
                        ctx.violation(f"centre-form:{kind}:differs-from-float-centre", f"{kind}: centre {ic.tolist()} given as {fname}, radius {r}: "
                                      f"{len(np.asarray(got.indices))} points, the same centre in floats gives {len(np.asarray(want.indices))} (or other points)", case)


def run_integer_points(ctx):
    """Grids whose POINT array has an integer dtype (a lattice of whole numbers handed over as it is) queried at centres with
    a fractional part: the local grid is that of the same points in floats (added after seeded change C10-K: the centre was
    cast to the dtype of the points)."""
    import itertools as it

    from grid.basegrid import Grid

    rng = _rng(ctx.seed, "intpoints")
    lat = np.array(list(it.product(range(4), repeat=3)))
    sets = {"line-int64": np.arange(20), "line-int32": np.arange(20, dtype=np.int32), "lattice-int64": lat, "lattice-int32": lat.astype(np.int32),
            "plane-int64": np.array(list(it.product(range(5), range(4))))}
    for name, pts in sets.items():
        w = rng.uniform(0.1, 1.0, len(pts))
        dim = 1 if pts.ndim == 1 else pts.shape[1]
        with warnings.catch_warnings():
            warnings.simplefilter("ignore")
            try:
                gi, gf = Grid(pts.copy(), w.copy()), Grid(pts.astype(float), w.copy())
            except Exception as exc:
                ctx.violation(f"integer-points:{name}:construction-raised:{type(exc).__name__}", f"Grid(integer points): {exc}", {"route": "integer-points"})
                continue
            for c in ([4.5, 1.5, 1.5], [0.25, 2.75, 1.5], [2.0, 1.0, 3.0], [1.9, 0.2, 2.6]):
                cen = np.float64(c[0]) if dim == 1 else np.array(c[:dim])
                for r in (0.6, 0.9, 1.45, 2.3):
                    ctx.count(section="integer-points")
                    case = {"route": "integer-points", "points": name, "centre": c[:dim], "radius": r}
                    try:
                        got, want = gi.get_localgrid(cen, r), gf.get_localgrid(cen, r)
                    except Exception as exc:
                        ctx.violation(f"integer-points:raised:{type(exc).__name__}", f"{name}: get_localgrid({c[:dim]}, {r}): {type(exc).__name__}: {exc}", case)
                        continue
                    ctx.nontrivial(("integer-points", name, tuple(c[:dim]), r), section="integer-points")
                    bad = lambda key, what, **det: ctx.violation(key, f"{name}: {what}", case)
                    check_local(want, pts.astype(float), w, cen, r, bad, "integer-points:float-copy")
                    if not np.array_equal(np.sort(np.asarray(got.indices)), np.sort(np.asarray(want.indices))):
                        ctx.violation("integer-points:differs-from-float-points", f"{name}: centre {c[:dim]}, radius {r}: indices {np.sort(np.asarray(got.indices)).tolist()[:8]} "
                                      f"for the integer-dtype points, {np.sort(np.asarray(want.indices)).tolist()[:8]} for the same points in floats", case)
                    elif len(np.asarray(got.indices)) and not np.array_equal(np.asarray(got.points), pts[np.asarray(got.indices)]):
                        ctx.violation("integer-points:points-not-parent", f"{name}: local points are not parent.points[indices]", case)


def run(ctx):
    depth = 5 if ctx.thorough else 4
    for kind in KINDS:
        explore.explore(ctx, "vf.props.c10:World", depth, params={"kind": kind},
                        twice_every=4, fresh_every=9 if kind in ("grid3d", "atom") else 0,
                        section=f"history:{kind}")
    for kind in KINDS:
        explore.explore(ctx, "vf.props.c10:World", depth, params={"kind": kind, "small": True},
                        twice_every=7, fresh_every=0, section=f"history-edit-local:{kind}")
    ctx.guarded("selection", run_selection, ctx)
    ctx.guarded("exact-surface", run_exact_surface, ctx)
    ctx.guarded("centre-forms", run_centre_forms, ctx)
    ctx.guarded("integer-points", run_integer_points, ctx)
    ctx.cov["radii"] = [repr(r) for r in RADII]
    ctx.cov["depth_bound"] = depth
    ctx.exhaustive = True


def replay(ctx, case):
    if case.get("route") == "select-unsupported":
        return run_selection(ctx)
    if case.get("route") == "exact":
        return run_exact_surface(ctx)
    if case.get("route") == "centre-forms":
        return run_centre_forms(ctx)
    if case.get("route") == "integer-points":
        return run_integer_points(ctx)
    if case.get("route") == "select":
        res = WorkerResult(section="selection")
        _select_case(case["grid"], case["index"], ctx.seed, res)
        ctx.merge(res.as_dict())
    else:
        explore.replay_history(ctx, case)
