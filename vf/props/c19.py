"""C19 -- caches and remembered parameters never change what a later call returns.

Engine E1 (explicit-state exploration of call histories on the real objects), three worlds:

World A  angular caches.  Slots a, b (AngularGrid), g (AtomGrid), s (shell grid of g),
         m (MolGrid).  Events: construct an angular grid (method x degree x cache on/off, by
         degree or by size), in-place edits ``*= 2`` of the points / weights arrays the library
         handed out, atomic-grid construction (method x rotation), shell extraction, spherical
         conversion, angular integration (r=0 regeneration path), molecular grid construction.
         Oracle after every transition: (i) a side-effect-free probe
         ``AngularGrid(degree, method, cache=False)`` (reads the cache, never fills it) returns
         the shipped data read directly with np.load (x 4 pi for lebedev/spherical) for every
         (method, degree) of the alphabet; (ii) every object created by the event equals the
         object a fresh world creates; (iii) every slot the model says was never edited still
         holds its reference content.
World B  inferred scale b of LinearInfinite/Exp/Power transforms: once b is fixed (explicitly or
         by the first call) every later result equals that of a fresh object with explicit b.
World C  lazily loaded Coulomb parameter table: every load equals the JSON read directly, also
         after the caller edited returned arrays.
"""

from __future__ import annotations

import json
import os
import warnings

import numpy as np

from vf import explore

LEVEL = "model_checking"
RULE = (
    "breadth-first over API-call histories up to the depth bound, one fresh world per history; "
    "a transition is non-trivial/distinct by its observation digest (values returned + canonical "
    "state)"
)
ASSUMPTIONS = [
    "the shipped .npz/.json data files define the expected values",
    "resetting the four cache dictionaries and coulomb._ATOMIC_GAUSS_PARAMS_CACHE restores a "
    "fresh interpreter's state (validated by re-running histories in a spawned interpreter)",
    "canonical keys merge only states with equal futures (argument in the code next to canon())",
]

FOUR_PI = 4 * np.pi
DIRS = {"lebedev": "lebedev", "spherical": "spherical_design", "maxdet": "maxdet",
        "ahrens_beylkin": "ahrens_beylkin"}


def _dev(a, b):
    """max |a - b|, or a shape note when the arrays do not even have the same shape"""
    a, b = np.asarray(a), np.asarray(b)
    if a.shape != b.shape:
        return f"shape {a.shape} vs {b.shape}"
    return float(np.max(np.abs(a - b))) if a.size else 0.0


def _h(a):
    """Content digest of an array (exact bytes)."""
    import hashlib

    a = np.ascontiguousarray(a)
    return hashlib.sha1(a.tobytes() + str(a.shape).encode()).hexdigest()[:12]


_DEFAULTS0 = {}


def _restore_mutable_defaults():
    """Mutable default arguments (e.g. ``degrees=[50]``) are module-level state too: their pristine content is recorded the
    first time and restored on every reset, so that one history cannot influence the next one in the same worker."""
    import copy

    from grid.atomgrid import AtomGrid

    for fn in (AtomGrid.__init__,):
        for k, d in enumerate(fn.__defaults__ or ()):
            if isinstance(d, (list, dict)):
                key = (fn.__qualname__, k)
                if key not in _DEFAULTS0:
                    _DEFAULTS0[key] = copy.deepcopy(d)
                elif d != _DEFAULTS0[key]:
                    if isinstance(d, list):
                        d[:] = copy.deepcopy(_DEFAULTS0[key])
                    else:
                        d.clear()
                        d.update(copy.deepcopy(_DEFAULTS0[key]))


def reset_library():
    import grid.angular as ang
    import grid.coulomb as cou

    _restore_mutable_defaults()

    # every functools cache on a module-level function or on a class attribute of the library (a memo added by a change)
    import sys
    for mname, mod in list(sys.modules.items()):
        if mname == "grid" or mname.startswith("grid.") and ".tests" not in mname:
            for val in list(vars(mod).values()):
                if callable(getattr(val, "cache_clear", None)):
                    val.cache_clear()
                elif isinstance(val, type) and getattr(val, "__module__", "").startswith("grid"):
                    for attr in list(vars(val).values()):
                        fn = getattr(attr, "__func__", attr)
                        if callable(getattr(fn, "cache_clear", None)):
                            fn.cache_clear()
    # every module-level dictionary whose name says it is a cache (robust to caches being added, merged or renamed)
    for name, val in list(vars(ang).items()):
        if "CACHE" in name.upper() and isinstance(val, dict):
            val.clear()
    for name, val in list(vars(cou).items()):
        if "CACHE" in name.upper() and not callable(val):
            if isinstance(val, dict) and name != "_ATOMIC_GAUSS_PARAMS_CACHE":
                val.clear()
            else:
                setattr(cou, name, None)


def cache_of(method):
    import grid.angular as ang

    return {
        "lebedev": getattr(ang, "LEBEDEV_CACHE", {}),
        "spherical": getattr(ang, "SPHERICAL_CACHE", {}),
        "maxdet": getattr(ang, "MAX_DET_CACHE", {}),
        "ahrens_beylkin": getattr(ang, "AHRENS_BEYLKIN_CACHE", {}),
    }[method]


_RAW = {}


def actual(method, request):
    """Supported degree the request resolves to (smallest not below; oracle of C12)."""
    from vf.props.c12 import listing, oracle_by_degree

    return oracle_by_degree(listing(method), request)[0]


def shipped(method, degree):
    """(points, weights as AngularGrid documents them) read directly from the data file."""
    import grid
    key = (method, degree)
    if key not in _RAW:
        from vf.props.c12 import listing, oracle_by_degree

        # ``degree`` is a *request*; the supported grid is the smallest one not below (C12)
        degree, size = oracle_by_degree(listing(method), degree)
        path = os.path.join(os.path.dirname(grid.__file__), "data", DIRS[method],
                            f"{method}_{degree}_{size}.npz")
        with np.load(path) as d:
            pts = np.array(d["points"], dtype=float)
            w = np.array(d["weights"], dtype=float)
        if len(w) == 1:
            w = np.ones(len(pts)) * w
        if method in ("lebedev", "spherical"):
            w = w * FOUR_PI
        _RAW[key] = (pts, w)
    return _RAW[key]


# ------------------------------------------------------------------------------ World A
class WorldA:
    """Angular caches.  ``methods``/``degrees`` are the alphabets (supported degrees)."""

    def __init__(self, seed, methods=("lebedev", "maxdet"), degrees=(3, 5), extra=True):
        reset_library()
        self.seed = seed
        self.methods = tuple(methods)
        self.degrees = tuple(degrees)
        self.extra = extra
        self.slots = {}      # name -> live object
        self.model = {}      # name -> dict(cfg=..., editP=bool, editW=bool)
        self.violations = []
        self.sized = set()     # methods for which a request BY SIZE went through an atomic grid (hidden memo state)
        self._refs = _references(self.methods, self.degrees)
        reset_library()

    # -- helpers
    def _rgrid(self):
        from grid.basegrid import OneDGrid

        return OneDGrid(np.array([0.0, 0.5, 1.25]), np.array([0.25, 0.5, 0.75]), (0, np.inf))

    def _atom(self, method, rotate, center=(0.0, 0.0, 0.0)):
        from grid.atomgrid import AtomGrid

        d0, d1 = self.degrees
        with warnings.catch_warnings():
            warnings.simplefilter("ignore")
            return AtomGrid(self._rgrid(), degrees=[d0, d1, d0], center=np.array(center),
                            rotate=rotate, method=method)

    def _bad(self, key, what, **det):
        self.violations.append((key, what, det))

    # -- events
    def enabled(self):
        evs = []
        slots = ["a"] + (["b"] if "a" in self.slots else [])
        for sl in slots:
            for mth in self.methods:
                for dg in self.degrees:
                    for cache in (True, False):
                        evs.append(("A", sl, mth, dg, cache, "degree"))
        for mth in self.methods:
            for dg in self.degrees:
                evs.append(("A", "a", mth, dg, True, "size"))
        # requests that lean on argument defaults or give degree and size together, and atomic grids built with every
        # default (a one-shell radial grid first): whatever the rule for them is, the answer must be that of a fresh
        # process (seeded changes C19-I / C19-J: a cache fast path for the default degree, a polluted mutable default)
        if self.extra:      # (explored for the lebedev / maxdet pair: the default degree is a table entry of maxdet)
            for mth in self.methods:
                evs += [("AB", mth), ("Adef", mth), ("AtomDef", mth)]
            evs.append(("AtomDef1",))
            # a preset atomic grid on its default radial grid; afterwards the caller edits the radial grid object it finds on
            # the result, in place (seeded change C19-L: one memoised default radial grid shared by all preset grids of an element)
            evs += [("Preset", 1), ("Preset", 8)]
        for sl in ("a", "b", "s", "g", "m"):
            if sl in self.slots:
                evs.append(("EditP", sl))
                evs.append(("EditW", sl))
        for mth in self.methods:
            for rot in (0, 7):
                evs.append(("Atom", mth, rot))
        # the same SIZE request through an atomic grid for either method (a remembered size -> degree answer must not
        # leak from one method to the other: seeded change C19-E)
        for mth in self.methods:
            evs.append(("AtomS", mth))
        if "g" in self.slots:
            evs.append(("Shell", 0))
            evs.append(("Shell", 1))
            if self.extra:
                evs.append(("Sph",))
                evs.append(("AngInt",))
        if self.extra:
            evs.append(("Mol", self.methods[-1]))
        return evs

    def apply(self, ev):
        from grid.angular import AngularGrid

        kind = ev[0]
        obs = None
        with warnings.catch_warnings():
            warnings.simplefilter("ignore")
            if kind == "A":
                _, sl, mth, dg, cache, by = ev
                if by == "degree":
                    g = AngularGrid(degree=dg, method=mth, cache=cache)
                else:
                    size = max(1, len(shipped(mth, dg)[0]) - 1)  # resolves to the same grid
                    g = AngularGrid(size=size, method=mth, cache=cache)
                self.slots[sl] = g
                self.model[sl] = {"cfg": ("ang", mth, dg), "editP": False, "editW": False}
                obs = (_h(g.points), _h(g.weights), int(g.degree))
                if len(g.points) != len(shipped(mth, dg)[0]):
                    self._bad(f"A:ctor:{mth}:wrong-grid", f"{ev} built a grid of {len(g.points)} points")
            elif kind in ("AB", "Adef", "AtomDef", "AtomDef1", "Preset"):
                self.sized.add(kind if kind == "AtomDef1" else (kind, ev[1]))
                g = _special_build(self, ev)
                rp, rw = self._refs[tuple(ev)]
                obs = (_h(g.points), _h(g.weights))
                if np.shape(g.points) != np.shape(rp) or not (np.array_equal(g.points, rp) and np.array_equal(g.weights, rw)):
                    self._bad(f"A:{kind}:{ev[1] if len(ev) > 1 else 'defaults'}:differs-from-fresh-world",
                              f"{ev}: the grid built after this history ({len(g.weights)} points) differs from the one a fresh process "
                              f"builds for the same call ({len(rw)} points)")
                if kind == "Preset":
                    g.rgrid.points[...] *= 2.0
                    g.rgrid.weights[...] *= 3.0
            elif kind == "EditP":
                obj = self.slots[ev[1]]
                arr = obj.points
                arr *= 2.0
                # an atomic grid computes its points (centre + stored offsets) on every access: the array handed out is the
                # caller's own and editing it must leave the grid alone (seeded change C05-K); all other classes hand out
                # the array they hold, so the edit is an edit of that object
                if ev[1] != "g":
                    self.model[ev[1]]["editP"] = True
                obs = _h(arr)
            elif kind == "EditW":
                arr = self.slots[ev[1]].weights
                arr *= 2.0
                self.model[ev[1]]["editW"] = True
                obs = _h(arr)
            elif kind == "Atom":
                _, mth, rot = ev
                g = self._atom(mth, rot)
                self.slots["g"] = g
                self.model["g"] = {"cfg": ("atom", mth, rot), "editP": False, "editW": False}
                self.slots.pop("s", None)
                self.model.pop("s", None)
                obs = (_h(g.points), _h(g.weights))
            elif kind == "AtomS":
                from grid.atomgrid import AtomGrid
                from vf.props.c12 import listing, oracle_by_size

                mth = ev[1]
                self.sized.add(mth)
                # one request list for both methods: the sizes of the first method's grids, and one point fewer
                req = [len(shipped(self.methods[0], self.degrees[0])[0]), len(shipped(self.methods[0], self.degrees[1])[0]) - 1,
                       len(shipped(self.methods[1], self.degrees[0])[0])]
                want = [oracle_by_size(listing(mth), q) for q in req]
                g = AtomGrid(self._rgrid(), degrees=None, sizes=list(req), method=mth)
                got = [(int(d), int(b - a)) for d, a, b in zip(g.degrees, g.indices[:-1], g.indices[1:])]
                if got != [(int(d), int(n)) for d, n in want]:
                    self._bad(f"A:AtomS:{mth}:wrong-shells", f"AtomGrid(sizes={req}, method={mth}) after this history has shells (degree, size) "
                              f"{got}; the method's table gives {want}")
                else:
                    h = AtomGrid(self._rgrid(), degrees=[int(d) for d, _ in want], method=mth)
                    if not (np.array_equal(g.points, h.points) and np.array_equal(g.weights, h.weights)):
                        self._bad(f"A:AtomS:{mth}:differs-from-by-degree", "atomic grid by sizes differs from the same grid by degrees")
                obs = (_h(g.points), _h(g.weights))
            elif kind == "Shell":
                g = self.slots["g"]
                i = ev[1]
                s = g.get_shell_grid(i)
                cfg = self.model["g"]["cfg"]
                self.slots["s"] = s
                # a shell grid derives from g's rgrid and from a fresh angular grid only: it does
                # not depend on edits of g.weights
                self.model["s"] = {"cfg": ("shell", cfg[1], cfg[2], i), "editP": False, "editW": False}
                obs = (_h(s.points), _h(s.weights))
            elif kind == "Sph":
                g = self.slots["g"]
                sph = g.convert_cartesian_to_spherical()
                cfg = self.model["g"]["cfg"]
                ref = self._refs[("sph", cfg[1], cfg[2])]
                if not np.array_equal(sph, ref):
                    self._bad(f"A:Sph:{cfg[1]}:differs-from-fresh-world",
                              "convert_cartesian_to_spherical() differs from a fresh world",
                              max_abs=_dev(sph, ref))
                obs = _h(sph)
            elif kind == "AngInt":
                g = self.slots["g"]
                cfg = self.model["g"]["cfg"]
                if not self.model["g"]["editW"]:
                    vals = self._refs[("vals", cfg[1], cfg[2])]
                    out = g.integrate_angular_coordinates(vals)
                    ref = self._refs[("angint", cfg[1], cfg[2])]
                    if not np.allclose(out, ref, rtol=0, atol=1e-13):
                        self._bad(f"A:AngInt:{cfg[1]}:differs-from-fresh-world",
                                  "integrate_angular_coordinates differs from a fresh world",
                                  got=out, expected=ref)
                    obs = _h(np.round(out, 10))
            elif kind == "Mol":
                m = _build_mol(self, ev[1])
                self.slots["m"] = m
                self.model["m"] = {"cfg": ("mol", ev[1]), "editP": False, "editW": False}
                obs = (_h(m.points), _h(m.weights))
            else:
                raise ValueError(ev)
        self._check(ev)
        return obs

    # -- oracle
    def _slot_reference(self, cfg):
        if cfg[0] == "ang":
            return shipped(cfg[1], cfg[2])
        return self._refs[cfg]

    def _check(self, ev):
        from grid.angular import AngularGrid

        # (ii)+(iii) every slot the model says is unedited holds its reference content
        for sl, obj in self.slots.items():
            md = self.model[sl]
            rp, rw = self._slot_reference(md["cfg"])
            if not md["editP"] and not np.array_equal(obj.points, rp):
                self._bad(f"A:slot:{md['cfg'][0]}:{md['cfg'][1]}:points-differ",
                          f"{md['cfg']} (never edited by the caller) has points differing from the "
                          f"shipped data / fresh-world grid after {ev}",
                          max_abs=_dev(obj.points, rp))
            if not md["editW"] and not np.array_equal(obj.weights, rw):
                self._bad(f"A:slot:{md['cfg'][0]}:{md['cfg'][1]}:weights-differ",
                          f"{md['cfg']} (never edited by the caller) has weights differing from the "
                          f"shipped data / fresh-world grid after {ev}",
                          max_abs=_dev(obj.weights, rw))
        # (i) probes for every (method, degree)
        with warnings.catch_warnings():
            warnings.simplefilter("ignore")
            for mth in self.methods:
                for dg in self.degrees:
                    pr = AngularGrid(degree=dg, method=mth, cache=False)
                    rp, rw = shipped(mth, dg)
                    if not np.array_equal(pr.points, rp):
                        self._bad(f"A:probe:{mth}:points-differ",
                                  f"AngularGrid(degree={dg}, method={mth}) built after this history has "
                                  f"points differing from the shipped data",
                                  max_abs=_dev(pr.points, rp))
                    if not np.array_equal(pr.weights, rw):
                        self._bad(f"A:probe:{mth}:weights-differ",
                                  f"AngularGrid(degree={dg}, method={mth}) built after this history has "
                                  f"weights differing from the shipped data",
                                  max_abs=_dev(pr.weights, rw))

    # -- canonical key
    def canon(self):
        """Everything that can influence a future observation:

        * per (method, degree): is there a cache entry, and is its content still the shipped
          data (points / weights separately);
        * per slot: configuration, the model's edit flags, and which cache entries / other slots
          its arrays share memory with (aliasing is what lets a future edit leak).
        Slot contents themselves are functions of (cfg, edit flags) as long as no violation was
        reported, and violating states are not expanded, so they need not be part of the key.
        """
        key = []
        for mth in self.methods:
            cd = cache_of(mth)
            for dg in self.degrees:
                if actual(mth, dg) in cd:
                    cp, cw = cd[actual(mth, dg)]
                    rp, rw0 = shipped(mth, dg)
                    rw = rw0 / FOUR_PI if mth in ("lebedev", "spherical") else rw0
                    key.append((mth, dg, True, bool(np.array_equal(cp, rp)),
                                bool(np.shape(cw) == np.shape(rw) and np.allclose(cw, rw, rtol=1e-15, atol=0))))
                else:
                    key.append((mth, dg, False, True, True))
        key.append(("sized", tuple(sorted(map(repr, self.sized)))))
        for sl in ("a", "b", "g", "s", "m"):
            if sl not in self.slots:
                key.append((sl, None))
                continue
            md = self.model[sl]
            obj = self.slots[sl]
            alias = []
            pts = obj._points if hasattr(obj, "_points") else obj.points
            for mth in self.methods:
                for dg, (cp, cw) in sorted(cache_of(mth).items()):
                    alias.append((mth, dg, bool(np.shares_memory(pts, cp)),
                                  bool(np.shares_memory(obj.weights, cw))))
            for other in ("a", "b", "g", "s", "m"):
                if other != sl and other in self.slots:
                    o = self.slots[other]
                    op = o._points if hasattr(o, "_points") else o.points
                    alias.append((other, bool(np.shares_memory(pts, op)),
                                  bool(np.shares_memory(obj.weights, o.weights))))
            key.append((sl, md["cfg"], md["editP"], md["editW"], tuple(alias)))
        return tuple(key)


def _special_build(world, ev):
    from grid.angular import AngularGrid
    from grid.atomgrid import AtomGrid
    from grid.basegrid import OneDGrid

    kind = ev[0]
    with warnings.catch_warnings():
        warnings.simplefilter("ignore")
        if kind == "AB":
            other = len(shipped(ev[1], world.degrees[1])[0])
            return AngularGrid(degree=world.degrees[0], size=other, method=ev[1])
        if kind == "Adef":
            return AngularGrid(method=ev[1])
        if kind == "AtomDef":
            return AtomGrid(world._rgrid(), method=ev[1])
        if kind == "Preset":
            return AtomGrid.from_preset(ev[1], "coarse")
        return AtomGrid(OneDGrid(np.array([0.8]), np.array([0.5]), (0, np.inf)))


def _build_mol(world, method):
    from grid.becke import BeckeWeights
    from grid.molgrid import MolGrid

    g1 = world._atom(method, 0, (0.0, 0.0, -0.7))
    g2 = world._atom(method, 7, (0.0, 0.1, 0.7))
    return MolGrid(np.array([1, 8]), [g1, g2], BeckeWeights(order=3), store=False)


_REFS = {}


def _references(methods, degrees):
    """Objects of a fresh world (caches empty), computed once per process and configuration."""
    key = (tuple(methods), tuple(degrees))
    if key in _REFS:
        return _REFS[key]
    refs = {}

    class _W:  # minimal stand-in providing _atom/_rgrid
        pass

    w = _W()
    w.degrees = tuple(degrees)
    w._rgrid = WorldA._rgrid.__get__(w)
    w._atom = WorldA._atom.__get__(w)
    for mth in methods:
        for rot in (0, 7):
            reset_library()
            g = w._atom(mth, rot)
            refs[("atom", mth, rot)] = (g.points.copy(), g.weights.copy())
            vals = np.cos(g.points[:, 0]) + g.points[:, 2] ** 2 + 1.0
            refs[("vals", mth, rot)] = vals
            reset_library()
            g = w._atom(mth, rot)
            with warnings.catch_warnings():
                warnings.simplefilter("ignore")
                refs[("sph", mth, rot)] = g.convert_cartesian_to_spherical().copy()
                refs[("angint", mth, rot)] = g.integrate_angular_coordinates(vals).copy()
                for i in (0, 1):
                    reset_library()
                    g = w._atom(mth, rot)
                    s = g.get_shell_grid(i)
                    refs[("shell", mth, rot, i)] = (s.points.copy(), s.weights.copy())
        reset_library()
        m = _build_mol(w, mth)
        refs[("mol", mth)] = (m.points.copy(), m.weights.copy())
        for kind in ("AB", "Adef", "AtomDef"):
            reset_library()
            g = _special_build(w, (kind, mth))
            refs[(kind, mth)] = (np.array(g.points), np.array(g.weights))
    reset_library()
    g = _special_build(w, ("AtomDef1",))
    refs[("AtomDef1",)] = (np.array(g.points), np.array(g.weights))
    for z in (1, 8):
        reset_library()
        g = _special_build(w, ("Preset", z))
        refs[("Preset", z)] = (np.array(g.points), np.array(g.weights))
    reset_library()
    _REFS[key] = refs
    return refs


# ------------------------------------------------------------------------------ World B
B_ARRAYS = {
    "x9": np.arange(10, dtype=float),          # max 9
    "x4": np.array([0.0, 1.5, 4.0]),           # max 4
    "x29": np.array([29.0, 3.0, 0.5, 11.0]),   # max 29, unsorted
}


class WorldB:
    """Inferred scale parameter b.  Slots: one transform per (class, explicit-b?) pair."""

    CLASSES = ("LinearInfiniteRTransform", "ExpRTransform", "PowerRTransform")

    def __init__(self, seed, cls="PowerRTransform", explicit=None):
        import grid.rtransform as rt

        self.seed = seed
        self.cls = getattr(rt, cls)
        self.clsname = cls
        self.explicit = explicit
        self.rmin, self.rmax = (1e-3, 20.0) if cls != "LinearInfiniteRTransform" else (0.1, 20.0)
        self.tf = self.cls(self.rmin, self.rmax, b=explicit)
        self.b_model = explicit  # reference model: b once fixed never changes
        self.violations = []
        self.ncalls = 0

    def enabled(self):
        evs = []
        for meth in ("transform", "deriv", "deriv2", "deriv3", "inverse"):
            for arr in B_ARRAYS:
                evs.append((meth, arr))
        # "the first grid it sees": transforming a whole 1D grid, and the public setter of the scale
        evs += [("grid", "10"), ("grid", "5"), ("grid", "30"), ("setb", "x4"), ("setb", "x29")]
        return evs

    def _apply_grid_or_setb(self, ev):
        from grid.onedgrid import UniformInteger

        kind, name = ev
        b_before = self.tf.b
        with warnings.catch_warnings():
            warnings.simplefilter("ignore")
            with np.errstate(all="ignore"):
                if kind == "setb":
                    x = B_ARRAYS[name].copy()
                    self.tf.set_maximum_parameter_b(x)
                    seen = float(np.max(x))
                    out = None
                else:
                    rule = UniformInteger(int(name))
                    pts, wts = np.array(rule.points, dtype=float), np.array(rule.weights, dtype=float)
                    out = self.tf.transform_1d_grid(rule)
                    seen = float(np.max(pts))
                    if not (np.array_equal(rule.points, pts) and np.array_equal(rule.weights, wts)):
                        self.violations.append((f"B:{self.clsname}:grid:argument-modified", "transform_1d_grid modified the rule", {}))
        self.ncalls += 1
        if self.b_model is None:
            self.b_model = seen
        if self.tf.b is None or float(self.tf.b) != float(self.b_model):
            self.violations.append((f"B:{self.clsname}:b-not-set-once", f"scale b is {self.tf.b} after {ev}; the set-once rule gives "
                                    f"{self.b_model} (b before the call: {b_before})", {"b": repr(self.tf.b), "expected": self.b_model}))
            return None
        if out is None:
            return ("setb", float(self.tf.b))
        fresh = self.cls(self.rmin, self.rmax, b=self.b_model)
        with warnings.catch_warnings():
            warnings.simplefilter("ignore")
            with np.errstate(all="ignore"):
                rp, rw = fresh.transform(pts.copy()), fresh.deriv(pts.copy()) * wts
        gp, gw = np.asarray(out.points, dtype=float), np.asarray(out.weights, dtype=float)
        if gp.shape != rp.shape or not (np.allclose(gp, rp, rtol=1e-14, atol=0, equal_nan=True)
                                         and np.allclose(np.abs(gw), np.abs(rw), rtol=1e-14, atol=0, equal_nan=True)):
            self.violations.append((f"B:{self.clsname}:grid:differs-from-explicit-b", f"transform_1d_grid(UniformInteger({name})) after "
                                    f"this history differs from a fresh {self.clsname}(b={self.b_model})", {}))
        return _h(np.concatenate([gp, gw]))

    def apply(self, ev):
        if ev[0] in ("grid", "setb"):
            return self._apply_grid_or_setb(ev)
        meth, name = ev
        x = B_ARRAYS[name].copy()
        if meth == "inverse":
            # radii inside the codomain
            x = self.rmin + (self.rmax - self.rmin) * (x + 0.5) / (x.max() + 1.0)
        before = x.copy()
        b_before = self.tf.b
        with warnings.catch_warnings():
            warnings.simplefilter("ignore")
            with np.errstate(all="ignore"):
                out = getattr(self.tf, meth)(x)
        self.ncalls += 1
        if not np.array_equal(x, before):
            self.violations.append((f"B:{self.clsname}:{meth}:argument-modified",
                                    "transform call modified its argument", {}))
        # reference model: the first call that needs b fixes it to max(argument)
        fixes_b = not (self.clsname == "LinearInfiniteRTransform" and meth in ("deriv2", "deriv3"))
        if self.b_model is None and fixes_b:
            self.b_model = float(np.max(before))
        if self.b_model is not None or self.tf.b is not None:
            if self.tf.b is None or self.b_model is None or float(self.tf.b) != float(self.b_model):
                self.violations.append((
                    f"B:{self.clsname}:b-not-set-once",
                    f"scale b is {self.tf.b} after {ev}; the set-once rule gives {self.b_model} "
                    f"(b before the call: {b_before})", {"b": repr(self.tf.b), "expected": self.b_model}))
                return None
            fresh = self.cls(self.rmin, self.rmax, b=self.b_model)
            with warnings.catch_warnings():
                warnings.simplefilter("ignore")
                with np.errstate(all="ignore"):
                    ref = getattr(fresh, meth)(before.copy())
            if not np.array_equal(np.asarray(out), np.asarray(ref), equal_nan=True):
                self.violations.append((
                    f"B:{self.clsname}:{meth}:differs-from-explicit-b",
                    f"{meth}({name}) after this history differs from a fresh {self.clsname}(b={self.b_model})",
                    {"max_abs": float(np.nanmax(np.abs(np.asarray(out) - np.asarray(ref))))}))
        return _h(np.asarray(out, dtype=float))

    def canon(self):
        """The only remembered quantity is b; results are pure functions of (b, argument).
        The number of calls is kept (capped at 2) so that "first call" and "later call" states
        are not merged before b is known to be stable."""
        b = self.tf.b
        extra = sorted(k for k in vars(self.tf) if k not in ("_rmin", "_rmax", "_b", "_domain", "_codomain"))
        return (None if b is None else float(b), min(self.ncalls, 2), tuple(extra))


# ------------------------------------------------------------------------------ World C
C_ELEMENTS = (1, "H", " c ", 8, "np17")
_JSON = {}


def _json_ref(symbol):
    import grid

    if not _JSON:
        path = os.path.join(os.path.dirname(grid.__file__), "data", "atomic_gauss_params.json")
        with open(path, encoding="utf-8") as fh:
            _JSON.update(json.load(fh))
    d = _JSON[symbol]
    return np.asarray(d["coeffs_s"], dtype=float), np.asarray(d["alphas_s"], dtype=float)


C_SYMBOL = {1: "H", "H": "H", " c ": "C", 8: "O", "np17": "Cl"}


class WorldC:
    def __init__(self, seed):
        reset_library()
        self.seed = seed
        self.last = None
        self.violations = []
        self.loaded = []
        self.edited = []

    def enabled(self):
        evs = [("load", e) for e in C_ELEMENTS]
        if self.last is not None:
            evs += [("EditC",), ("EditA",)]
        # a consumer INSIDE the library (the robust Poisson solver reads the table for its core models)
        evs += [("Robust", 1), ("Robust", 8)]
        return evs

    def apply(self, ev):
        from grid.coulomb import load_atomic_gaussian_params

        if ev[0] == "load":
            e = ev[1]
            arg = np.int64(17) if e == "np17" else e
            c, a = load_atomic_gaussian_params(arg)
            rc, ra = _json_ref(C_SYMBOL[e])
            if not (np.array_equal(c, rc) and np.array_equal(a, ra)):
                self.violations.append((
                    f"C:load:{C_SYMBOL[e]}:differs-from-json",
                    f"load_atomic_gaussian_params({e!r}) after this history differs from the JSON file",
                    {}))
            if not (len(c) == len(a) and np.all(a > 0)):
                self.violations.append((f"C:load:{C_SYMBOL[e]}:malformed", "arrays do not match / exponents not positive", {}))
            self.last = (c, a)
            self.loaded.append(C_SYMBOL[e])
            return (_h(c), _h(a))
        if ev[0] == "Robust":
            from grid.atomgrid import AtomGrid
            from grid.coulomb import coulomb_potential
            from grid.onedgrid import GaussLegendre
            from grid.robust_poisson import solve_poisson_robust
            from grid.rtransform import BeckeRTransform, InverseRTransform

            z = int(ev[1])
            sym = {1: "H", 8: "O"}[z]
            rc, ra = _json_ref(sym)
            centre = np.array([[0.1, -0.2, 0.3]])
            with warnings.catch_warnings():
                warnings.simplefilter("ignore")
                with np.errstate(all="ignore"):
                    btf = BeckeRTransform(1e-4, 1.5)
                    g = AtomGrid(btf.transform_1d_grid(GaussLegendre(24)), degrees=[3], center=centre[0])
                    d2 = np.sum((g.points - centre[0]) ** 2, axis=1)
                    dens = sum(c * (a / np.pi) ** 1.5 * np.exp(-a * d2) for c, a in zip(rc, ra))
                    q = centre + np.array([[0.4, 0.1, -0.3], [1.5, -1.0, 0.8]])
                    np.random.seed(0)
                    got = np.asarray(solve_poisson_robust(g, dens, InverseRTransform(btf), np.array([z]), centre)(q), dtype=float)
                    want = coulomb_potential(q, np.tile(centre, (len(rc), 1)), rc, ra)
            if got.shape != want.shape or not np.allclose(got, want, rtol=0, atol=1e-7):
                self.violations.append((f"C:Robust:{sym}:differs-from-core-potential", f"robust solver on the {sym} core model after this history: "
                                        f"{got}, analytic potential of the JSON parameters {want}", {}))
            return _h(np.round(got, 6))
        if ev[0] == "EditC":
            self.last[0][...] *= 2.0
            self.edited.append(self.loaded[-1])
            return _h(self.last[0])
        self.last[1][...] = -1.0
        self.edited.append(self.loaded[-1])
        return _h(self.last[1])

    def canon(self):
        """Remembered: the parsed table (one object for all elements).  Key: table loaded?,
        for each alphabet element whether its cached entry still equals the file, and whether the
        last returned arrays exist (edits are only enabled then)."""
        import grid.coulomb as cou

        tab = getattr(cou, "_ATOMIC_GAUSS_PARAMS_CACHE", None)
        state = []
        for sym in ("H", "C", "O", "Cl"):
            if tab is None:
                state.append(None)
            else:
                rc, ra = _json_ref(sym)
                state.append(bool(np.array_equal(np.asarray(tab[sym]["coeffs_s"], dtype=float), rc)
                                  and np.array_equal(np.asarray(tab[sym]["alphas_s"], dtype=float), ra)))
        return (tab is not None, tuple(state), self.last is not None,
                self.loaded[-1] if self.loaded else None,
                bool(self.edited and self.loaded and self.edited[-1] == self.loaded[-1]))


# ------------------------------------------------------------------------------ driver
def run(ctx):
    # Every PAIR of methods is explored with degrees both methods support, so that two caches that
    # are confused with each other (keyed by degree only) necessarily collide.  (The cross-method
    # pairs were added after seeded change C19-C was missed.)
    pairs = [
        dict(methods=("lebedev", "maxdet"), degrees=(3, 5)),
        dict(methods=("maxdet", "ahrens_beylkin"), degrees=(14, 19)),
        dict(methods=("lebedev", "spherical"), degrees=(3, 5)),
        dict(methods=("spherical", "ahrens_beylkin"), degrees=(19, 23)),
        dict(methods=("lebedev", "ahrens_beylkin"), degrees=(19, 23)),
        dict(methods=("spherical", "maxdet"), degrees=(3, 5)),
    ]
    if ctx.thorough:
        a_runs = [dict(p, depth=5 if i == 0 else 3) for i, p in enumerate(pairs)]
        depth_b, depth_c = 5, 6
    else:
        # (depth 3 for every pair: build a, build b, edit a, observe b needs three events before the observation)
        a_runs = [dict(p, depth=3, extra=(i == 0)) for i, p in enumerate(pairs)]
        depth_b, depth_c = 4, 5
    for r in a_runs:
        depth = r.pop("depth")
        explore.explore(ctx, "vf.props.c19:WorldA", depth, params=r, twice_every=5,
                        fresh_every=7, section="A:angular-caches")
    for cls in WorldB.CLASSES:
        for explicit in (None, 5.0, 29.0):
            explore.explore(ctx, "vf.props.c19:WorldB", depth_b,
                            params={"cls": cls, "explicit": explicit}, twice_every=3,
                            fresh_every=0, section="B:inferred-scale")
    explore.explore(ctx, "vf.props.c19:WorldC", depth_c, params={}, twice_every=2,
                    fresh_every=5, section="C:coulomb-table")
    ctx.cov["bounds"] = {"depth_A": [e["depth_completed"] for e in ctx.cov["explorations"]
                                     if e["world"].endswith("WorldA")],
                         "depth_B": depth_b, "depth_C": depth_c}
    ctx.exhaustive = True  # within the stated depth bound and alphabets


def replay(ctx, case):
    explore.replay_history(ctx, case)
