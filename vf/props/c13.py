"""C13 -- rectilinear grids keep a lexicographic tensor layout with invertible index maps.

Seven sub-checks, each exhaustive over its own small space (engine E2):
 1 index maps      all shapes in {2..5}^2 u {2..4}^3, every flat index and coordinate tuple, both ways
 2 layout          UniformGrid point(i,j,k) = origin + i a1 + j a2 + k a3 (last index fastest) for axes
                   menus (diagonal, skewed, negative; 2-D and 3-D) x shapes; Tensor1DGrids over all
                   ordered pairs / triples of 4 small 1D grids; weights = products; separable
                   integrands integrate to products; get_points_along_axes
 3 weight schemes  {Rectangle, Trapezoid, Fourier1, Fourier2, Alternative} x dim {2,3} x shapes x
                   orthogonal/skewed axes: constructs and |sum w / volume - 1| <= sum_i 1/M_i
 4 from_molecule   molecules (incl. strongly asymmetric, single atom, linear) x spacing x extension x
                   rotate: every nucleus inside with margin >= extension - spacing on all six sides
 5 closest_point   orthogonal axes (positive and negative diagonal): a lattice of query points (nodes, cell
                   centres +- eps, up to 2.6 steps outside the box) vs brute-force argmin; "origin" mode vs floor
 6 cube files      shapes x skewed axes x data with extreme exponents x {bohr, angstrom} convention
 7 interpolation   cubic: monomials x^a y^b z^c, a,b,c <= 3 (a basis of the polynomials the clause
                   names; interpolation is linear in the values) x derivative orders <= 3 x interior
                   points on two grids; log variant on exp(polynomial); linear method on the 8
                   trilinear monomials
"""

from __future__ import annotations

import itertools
import os
import shutil
import tempfile
import warnings

import numpy as np

from vf import lattice
from vf.cli import ROOT, WorkerResult


def _gt(a, b):
    """a > b that is also True when a is NaN (a silent NaN must never pass a tolerance test)."""
    return ~(np.asarray(a) <= np.asarray(b))


LEVEL = "exploration"
RULE = (
    "seven exhaustive sub-spaces (see module docstring); one evaluation = one index, node, weight "
    "scheme, nucleus margin, query point, file field or interpolated value; distinct non-trivial = "
    "distinct (sub-check, configuration, item) with a definite reference"
)
ASSUMPTIONS = [
    "cubic-spline interpolation with not-a-knot ends reproduces cubics exactly (needs >= 4 interior nodes per axis: shapes >= 7)",
    "printed precision of cube files: 6 decimals for geometry, 5 significant digits for data",
]

ANG = 1.8897261246257702  # ANGSTROM_TO_BOHR (CODATA), re-typed


# ------------------------------------------------------------------------------ 1 index maps
def sub_index_maps(ctx):
    from grid.cubic import UniformGrid

    shapes = list(itertools.product(range(2, 6), repeat=2)) + list(itertools.product(range(2, 5), repeat=3))
    for shape in shapes:
        dim = len(shape)
        g = UniformGrid(np.zeros(dim), np.eye(dim), np.array(shape))
        total = int(np.prod(shape))
        case = {"sub": "index", "shape": list(shape)}
        strides = [int(np.prod(shape[k + 1:])) for k in range(dim)]
        for flat, coord in enumerate(itertools.product(*[range(s) for s in shape])):
            ctx.count(2, section="index-maps")
            want = sum(c * s for c, s in zip(coord, strides))
            assert want == flat
            try:
                got_c = tuple(int(v) for v in g.index_to_coordinates(flat))
                got_f = int(g.coordinates_to_index(coord))
            except Exception as exc:
                ctx.violation(f"index:{dim}d:raised:{type(exc).__name__}", f"shape {shape}: {exc}", case)
                break
            if flat % 3 == 1:
                # other integer types of the same numbers (NumPy integers, an integer array, a list) and a Tensor1DGrids
                try:
                    alt_c = tuple(int(v) for v in g.index_to_coordinates(np.int64(flat)))
                    alt_f = {int(g.coordinates_to_index(np.array(coord))), int(g.coordinates_to_index(list(coord))),
                             int(g.coordinates_to_index(tuple(np.int32(c) for c in coord)))}
                except Exception as exc:
                    ctx.violation(f"index:{dim}d:integer-types:raised:{type(exc).__name__}", f"shape {shape}: {exc}", case)
                    break
                if alt_c != coord or alt_f != {flat}:
                    ctx.violation(f"index:{dim}d:integer-types-differ", f"shape {shape}: NumPy-integer index {flat} -> {alt_c}; array / list / "
                                  f"int32 coordinates {coord} -> {sorted(alt_f)}", case)
                    break
            if got_c != coord or got_f != flat:
                ctx.violation(f"index:{dim}d:maps-not-inverse",
                              f"shape {shape}: index {flat} -> {got_c} (expected {coord}); {coord} -> {got_f}", case)
                break
        else:
            ctx.nontrivial(("index", shape), n=0, section="index-maps")
            ctx.nontrivial(("index", shape), section="index-maps")
        # round trip both directions and rejection of negative index
        ctx.count(section="index-maps")
        try:
            g.index_to_coordinates(-1)
            ctx.violation("index:negative-index-accepted", f"shape {shape}", case)
        except ValueError:
            pass
        assert total == g.size
    # the same maps on tensor-product grids of unequal sizes (2-D and 3-D)
    from grid.cubic import Tensor1DGrids
    from grid.onedgrid import GaussLegendre

    for shape in ((2, 3, 4), (4, 2, 3), (3, 5), (5, 2)):
        g = Tensor1DGrids(*[GaussLegendre(k) for k in shape])
        strides = [int(np.prod(shape[k + 1:])) for k in range(len(shape))]
        ok = True
        for flat, coord in enumerate(itertools.product(*[range(k) for k in shape])):
            ctx.count(2, section="index-maps")
            if tuple(int(v) for v in g.index_to_coordinates(flat)) != coord or int(g.coordinates_to_index(coord)) != flat:
                ok = False
                ctx.violation(f"index:tensor:{len(shape)}d:maps-not-inverse", f"Tensor1DGrids shape {shape}: index {flat} <-> {coord}",
                              {"sub": "index", "shape": list(shape), "tensor": True})
                break
        if ok:
            ctx.nontrivial(("index-tensor", shape), section="index-maps")


# ------------------------------------------------------------------------------ 2 layout
AXES3 = {
    "diag": np.diag([0.5, 0.7, 0.3]),
    "skew": np.array([[0.5, 0.1, 0.0], [0.05, 0.6, 0.1], [0.0, -0.2, 0.4]]),
    "neg": np.array([[-0.5, 0.0, 0.0], [0.0, 0.6, 0.0], [0.0, 0.1, -0.4]]),
}
AXES3["left"] = np.array([[0.5, 0.0, 0.0], [0.0, 0.6, 0.1], [0.0, 0.0, -0.4]])   # det < 0 (left-handed)
AXES3["swap"] = np.array([[0.0, 0.6, 0.0], [0.5, 0.0, 0.0], [0.1, 0.0, 0.4]])    # exchanged axis vectors, det < 0
AXES2 = {
    "diag": np.diag([0.5, 0.7]),
    "skew": np.array([[0.5, 0.2], [-0.1, 0.6]]),
    "neg": np.array([[-0.5, 0.0], [0.1, -0.6]]),
    "left": np.array([[0.5, 0.1], [0.0, -0.6]]),
    "swap": np.array([[0.0, 0.6], [0.5, 0.1]]),
}


def sub_layout(ctx):
    from grid.cubic import Tensor1DGrids, UniformGrid
    from grid.onedgrid import GaussLegendre, MidPoint, Trapezoidal

    for dim, menu, shapes in ((3, AXES3, [(2, 3, 4), (4, 2, 3), (3, 3, 2), (2, 2, 2)]),
                              (2, AXES2, [(2, 3), (4, 2), (3, 5), (5, 5)])):
        for (aname, axes), shape in itertools.product(menu.items(), shapes):
            origin = np.array([0.3, -1.0, 0.7])[:dim]
            case = {"sub": "layout-uniform", "dim": dim, "axes": aname, "shape": list(shape)}
            with warnings.catch_warnings():
                warnings.simplefilter("ignore")
                g = UniformGrid(origin, axes, np.array(shape))
            ref = np.array([origin + np.array(c) @ axes for c in itertools.product(*[range(s) for s in shape])])
            ctx.count(len(ref), section="layout")
            ctx.nontrivial(("uni", dim, aname, shape), section="layout")
            if g.points.shape != ref.shape or _gt(np.max(np.abs(g.points - ref)), 1e-13):
                ctx.violation(f"layout:uniform:{dim}d:points-not-origin-plus-steps",
                              f"UniformGrid {dim}-D axes={aname} shape={shape}: points differ from origin + i a1 + j a2 (+ k a3) "
                              f"in lexicographic order", case)
            if tuple(g.shape) != tuple(shape) or g.size != len(ref):
                ctx.violation(f"layout:uniform:{dim}d:shape", f"shape {g.shape} size {g.size}", case)
    # Tensor1DGrids over all ordered pairs / triples of 4 small 1D grids of different sizes
    ones = [GaussLegendre(2), Trapezoidal(3), MidPoint(4), GaussLegendre(5)]
    fx = [lambda t: np.exp(0.3 * t), lambda t: 1 + t * t, lambda t: np.cos(t), lambda t: t + 2.0]
    for k in (2, 3):
        for combo in itertools.permutations(range(4), k):
            gs = [ones[i] for i in combo]
            case = {"sub": "layout-tensor", "grids": list(combo)}
            g = Tensor1DGrids(*gs)
            ref_p = np.array(list(itertools.product(*[x.points for x in gs])))
            ref_w = np.array([np.prod(c) for c in itertools.product(*[x.weights for x in gs])])
            ctx.count(len(ref_w), section="layout")
            ctx.nontrivial(("tensor", combo), section="layout")
            if g.points.shape != ref_p.shape or not np.array_equal(g.points, ref_p):
                ctx.violation(f"layout:tensor:{k}d:points-not-tuples-of-1d-nodes", f"Tensor1DGrids{combo}: points are not the "
                              f"tuples of 1D nodes with the last index running fastest", case)
            if not np.allclose(g.weights, ref_w, rtol=1e-14, atol=0):
                ctx.violation(f"layout:tensor:{k}d:weights-not-products", f"Tensor1DGrids{combo}: weights are not the products", case)
            # separable integrand
            vals = np.prod([fx[i](g.points[:, a]) for a, i in enumerate(combo)], axis=0)
            want = np.prod([np.sum(x.weights * fx[i](x.points)) for x, i in zip(gs, combo)])
            if _gt(abs(g.integrate(vals) - want), 1e-13 * abs(want)):
                ctx.violation(f"layout:tensor:{k}d:separable-integral", f"Tensor1DGrids{combo}: separable integrand does not "
                              f"integrate to the product of 1D integrals", case)
            axes_pts = g.get_points_along_axes()
            if len(axes_pts) != k or not all(np.array_equal(a, x.points) for a, x in zip(axes_pts, gs)):
                ctx.violation(f"layout:tensor:{k}d:points-along-axes", f"Tensor1DGrids{combo}: get_points_along_axes differs "
                              f"from the 1D nodes", case)
            if tuple(g.shape) != tuple(x.size for x in gs) or not np.array_equal(g.origin, ref_p[0]):
                ctx.violation(f"layout:tensor:{k}d:shape-or-origin", f"shape {g.shape}", case)


# ------------------------------------------------------------------------------ 3 weight schemes
def sub_weights(ctx):
    from grid.cubic import UniformGrid

    # (the large shapes make the stated bound sum 1/M_i tight: 0.1 and 0.05)
    shapes3 = [(2, 2, 2), (3, 4, 5), (6, 2, 3), (5, 5, 5), (8, 3, 2), (2, 7, 4), (30, 30, 30), (21, 40, 33)]
    shapes2 = [(2, 2), (3, 5), (6, 2), (5, 5), (8, 3), (2, 7), (40, 40), (25, 64)]
    for scheme in ("Rectangle", "Trapezoid", "Fourier1", "Fourier2", "Alternative"):
        for dim, shapes, menu in ((3, shapes3, AXES3), (2, shapes2, AXES2)):
            for shape, aname in itertools.product(shapes, ("diag", "skew", "left", "swap")):
                ctx.count(section="weights")
                case = {"sub": "weights", "scheme": scheme, "dim": dim, "shape": list(shape), "axes": aname}
                axes = menu[aname]
                try:
                    with warnings.catch_warnings():
                        warnings.simplefilter("ignore")
                        g = UniformGrid(np.zeros(dim), axes, np.array(shape), weight=scheme)
                except Exception as exc:
                    ctx.violation(f"weights:{scheme}:{dim}d:cannot-construct:{type(exc).__name__}",
                                  f"UniformGrid(weight={scheme!r}) in {dim}-D shape {shape} raised {type(exc).__name__}: {exc}", case)
                    continue
                vol = abs(np.linalg.det(axes)) * np.prod(shape)
                ratio = float(np.sum(g.weights) / vol)
                bound = sum(1.0 / m for m in shape)
                ctx.nontrivial(("weights", scheme, dim, shape, aname), section="weights")
                if g.weights.shape != (int(np.prod(shape)),) or not np.all(np.isfinite(g.weights)):
                    ctx.violation(f"weights:{scheme}:{dim}d:malformed", f"weights shape {g.weights.shape}", case)
                elif _gt(abs(ratio - 1.0), bound + 1e-12):
                    sig = "sum-near-zero" if abs(ratio) < 0.05 else "sum-off"
                    ctx.violation(f"weights:{scheme}:{dim}d:{sig}",
                                  f"weight={scheme!r} {dim}-D shape {shape} axes {aname}: sum(w)/volume = {ratio:.6g}, allowed "
                                  f"deviation from 1 is sum 1/M_i = {bound:.4g}", case, ratio=ratio)
    ctx.count(section="weights")
    try:
        UniformGrid(np.zeros(3), np.eye(3), np.array([3, 3, 3]), weight="nonsense")
        ctx.violation("weights:unknown-scheme-accepted", "weight='nonsense' accepted", {"sub": "weights"})
    except ValueError:
        pass


# ------------------------------------------------------------------------------ 4 from_molecule
MOLECULES = {
    "H": (np.array([1]), np.array([[0.3, -0.2, 0.1]])),
    "H2": (np.array([1, 1]), np.array([[0.0, 0.0, -0.7], [0.0, 0.0, 0.7]])),
    "HF-far": (np.array([9, 1]), np.array([[0.0, 0.0, 0.0], [0.0, 0.0, 6.0]])),
    "water": (np.array([8, 1, 1]), np.array([[0.0, 0.0, 0.2], [0.0, 1.4, -0.9], [0.0, -1.4, -0.9]])),
    "linear3": (np.array([6, 8, 1]), np.array([[0.0, 0.0, 0.0], [0.0, 0.0, 2.2], [0.0, 0.0, -5.0]])),
    "heavy-light": (np.array([53, 1, 1]), np.array([[0.0, 0.0, 0.0], [4.0, 0.5, 0.0], [5.5, 3.0, 1.0]])),
    "planar4": (np.array([6, 1, 1, 17]), np.array([[0.0, 0.0, 0.0], [1.9, 0.3, 0.0], [-0.9, 1.7, 0.0], [-1.0, -3.0, 0.0]])),
    "generic5": (np.array([7, 1, 1, 1, 35]), np.array([[0.1, 0.2, 0.3], [1.7, 0.4, -0.3], [-0.6, 1.6, 0.8], [-0.5, -1.2, 1.1],
                                                       [0.4, -0.9, -4.1]])),
}


def sub_from_molecule(ctx):
    from grid.cubic import UniformGrid

    for (mname, (nums, coords)), spacing, ext, rot in itertools.product(MOLECULES.items(), (0.2, 0.5), (2.0, 5.0), (True, False)):
        ctx.count(section="from_molecule")
        case = {"sub": "from_molecule", "molecule": mname, "spacing": spacing, "extension": ext, "rotate": rot}
        c = coords + lattice.jitter(ctx.seed, mname, 0.0, 0.05)
        snap = (nums.copy(), c.copy())
        try:
            with warnings.catch_warnings():
                warnings.simplefilter("ignore")
                g = UniformGrid.from_molecule(nums, c, spacing=spacing, extension=ext, rotate=rot)
        except Exception as exc:
            ctx.violation(f"from_molecule:raised:{type(exc).__name__}", f"{mname}: {exc}", case)
            continue
        if not (np.array_equal(nums, snap[0]) and np.array_equal(c, snap[1])):
            ctx.violation("from_molecule:argument-modified", "atomic numbers or coordinates were modified", case)
        # fractional coordinates of the nuclei in units of grid steps: p = origin + f @ axes
        frac = np.linalg.solve(g.axes.T, (c - g.origin).T).T
        steps = np.linalg.norm(g.axes, axis=1)
        lo = frac * steps                                   # distance from the lower faces (orthogonal axes)
        hi = (np.array(g.shape) - 1 - frac) * steps         # distance from the upper faces
        margin = float(min(lo.min(), hi.min()))
        ctx.nontrivial(("mol", mname, spacing, ext, rot), section="from_molecule")
        if _gt(abs(np.linalg.norm(g.axes[0]) - spacing), 1e-12):
            ctx.violation("from_molecule:spacing", f"{mname}: step {np.linalg.norm(g.axes[0])} != spacing {spacing}", case)
        if margin < ext - spacing - 1e-9:
            sig = "box-centred-on-centre-of-charge" if _centred_on_charge(g, nums, c, spacing, ext) else "other"
            ctx.violation(f"from_molecule:margin-too-small:{sig}",
                          f"{mname} (spacing={spacing}, extension={ext}, rotate={rot}): smallest distance of a nucleus to a "
                          f"box face is {margin:.3f} < extension - spacing = {ext - spacing:.3f}", case, margin=margin)


def sub_from_molecule_weights(ctx):
    """The weighting scheme named in from_molecule / from_cube is the one the grid gets: its weights are those of the plain
    constructor with the same origin, axes, shape and scheme."""
    import os
    import tempfile

    from grid.cubic import UniformGrid

    nums, coords = MOLECULES["water"]
    for scheme in ("Rectangle", "Trapezoid", "Fourier1", "Alternative"):
        for rot in (True, False):
            ctx.count(section="from_molecule")
            case = {"sub": "from_molecule_weights", "scheme": scheme, "rotate": rot}
            with warnings.catch_warnings():
                warnings.simplefilter("ignore")
                g = UniformGrid.from_molecule(nums, coords, spacing=0.7, extension=1.5, rotate=rot, weight=scheme)
                ref = UniformGrid(g.origin, g.axes, np.array(g.shape), weight=scheme)
            ctx.nontrivial(("fmw", scheme, rot), section="from_molecule")
            if not np.allclose(g.weights, ref.weights, rtol=1e-13, atol=0):
                ctx.violation("from_molecule:weights-not-of-the-named-scheme", f"from_molecule(weight={scheme!r}, rotate={rot}): weights differ from "
                              f"UniformGrid(same origin, axes, shape, weight={scheme!r})", case)
    d = tempfile.mkdtemp(prefix="c13w")
    try:
        with warnings.catch_warnings():
            warnings.simplefilter("ignore")
            g = UniformGrid(np.array([-1.0, -0.5, -0.7]), np.diag([0.5, 0.6, 0.4]), np.array([4, 3, 5]))
            fn = os.path.join(d, "w.cube")
            g.generate_cube(fn, np.arange(60.0), coords, nums)
            for scheme in ("Rectangle", "Trapezoid", "Fourier1", "Alternative"):
                ctx.count(section="cube")
                g2 = UniformGrid.from_cube(fn, weight=scheme)
                ref = UniformGrid(g2.origin, g2.axes, np.array(g2.shape), weight=scheme)
                ctx.nontrivial(("fcw", scheme), section="cube")
                if not np.allclose(g2.weights, ref.weights, rtol=1e-13, atol=0):
                    ctx.violation("cube:weights-not-of-the-named-scheme", f"from_cube(weight={scheme!r}): weights differ from the plain constructor's",
                                  {"sub": "from_molecule_weights", "scheme": scheme})
    finally:
        import shutil

        shutil.rmtree(d, ignore_errors=True)


def _centred_on_charge(g, nums, coords, spacing=None, ext=None):
    """Signature of the recorded finding: the box is the documented one in SIZE (per axis ceil((span + 2 extension) /
    spacing) nodes) but is centred on the centre of nuclear charge instead of on the span of the nuclei, and its last
    node lies one step short of the upper face.  Any other box (fewer nodes, another centre) is a different defect."""
    centre = g.origin + 0.5 * (np.array(g.shape)) @ g.axes
    com = nums @ coords / nums.sum()
    if np.linalg.norm(centre - com) >= 1e-9:
        return False
    if spacing is None:
        return True
    unit = g.axes / np.linalg.norm(g.axes, axis=1)[:, None]
    # (the extents are measured along the COLUMNS of the eigenvector matrix while the grid axes are its ROWS -- the
    # other half of the recorded finding for rotate=True; with rotate=False both are the identity)
    u = (coords - com) @ unit
    x = (u.max(axis=0) - u.min(axis=0) + 2.0 * ext) / spacing
    ok = [int(s) in (int(np.ceil(v - 1e-9)), int(np.ceil(v + 1e-9))) for s, v in zip(g.shape, x)]
    return all(ok)


# ------------------------------------------------------------------------------ 5 closest_point
def sub_closest(ctx):
    from grid.cubic import UniformGrid

    for axes, shape in ((np.diag([0.5, 0.7, 0.3]), (3, 4, 5)), (np.diag([0.4, 0.4, 0.4]), (2, 2, 3)),
                        (np.diag([0.5, 0.25]), (4, 3)), (np.diag([-0.5, 0.7, -0.3]), (3, 2, 4)),
                        (np.diag([0.5, -0.25]), (3, 4))):
        dim = len(shape)
        origin = np.array([-0.6, 0.2, 1.0])[:dim]
        g = UniformGrid(origin, axes, np.array(shape))
        steps = np.diag(axes)
        case = {"sub": "closest", "shape": list(shape), "axes": np.diag(axes).tolist()}
        eps = 1e-6
        offs = (0.0, 0.5 - eps, 0.5 + eps, -0.3, 0.3)
        # fractional coordinates: nodes, cell centres +- eps, and points up to 2.6 steps outside the box
        fr = [sorted({i + o for i in range(s) for o in offs} | {-2.6, -0.7, s - 0.3, s + 1.6}) for s in shape]
        for f in itertools.product(*fr):
            ctx.count(2, section="closest")
            q = origin + np.array(f) * steps
            ref = int(np.argmin(np.linalg.norm(g.points - q, axis=1)))
            try:
                got = int(g.closest_point(q, "closest"))
            except Exception as exc:
                ctx.violation(f"closest:raised:{type(exc).__name__}", f"closest_point({q}) raised {exc}", case)
                break
            ctx.nontrivial(("closest", shape, f), section="closest")
            if not isinstance(got, int) or got != ref:
                dref = np.linalg.norm(g.points[ref] - q)
                dgot = np.linalg.norm(g.points[got] - q) if 0 <= got < g.size else np.inf
                if dgot > dref + 1e-12:
                    ctx.violation("closest:not-the-nearest-node",
                                  f"closest_point({q.tolist()}) = {got} at distance {dgot:.6g}; node {ref} is at {dref:.6g}", case)
                    break
            inside = all(0 <= v <= s - 1 for v, s in zip(f, shape))
            if inside:
                want = int(g.coordinates_to_index(tuple(int(np.floor(v + 1e-12)) for v in f)))
                o = int(g.closest_point(q, "origin"))
                if o != want and all(abs(v - round(v)) > 1e-9 for v in f):
                    ctx.violation("closest:origin-mode-not-floor", f"closest_point({q.tolist()}, 'origin') = {o}, expected {want}", case)
                    break
    # non-diagonal axes are documented as unsupported: clean ValueError
    ctx.count(section="closest")
    try:
        UniformGrid(np.zeros(3), AXES3["skew"], np.array([3, 3, 3])).closest_point(np.zeros(3))
        ctx.violation("closest:skewed-axes-accepted", "no ValueError for skewed axes", {"sub": "closest"})
    except ValueError:
        pass


# ------------------------------------------------------------------------------ 6 cube files
def sub_cube(ctx):
    from grid.cubic import UniformGrid

    os.makedirs(os.path.join(ROOT, "scratch"), exist_ok=True)
    tmp = tempfile.mkdtemp(dir=os.path.join(ROOT, "scratch"))
    try:
        rng = np.random.default_rng([ctx.seed, 6])
        for k, (shape, aname) in enumerate(itertools.product([(2, 3, 4), (3, 3, 3), (5, 2, 7), (1 + 1, 6, 2)], AXES3)):
            axes = np.round(AXES3[aname] * (1 + 0.1 * k), 6)
            origin = np.round(np.array([-1.234567, 0.5, 2.25]) + 0.01 * k, 6)
            g = UniformGrid(origin, axes, np.array(shape))
            n = int(np.prod(shape))
            data = rng.normal(size=n) * 10.0 ** rng.integers(-30, 30, size=n)
            data[0], data[-1] = 0.0, -1.2345e-99
            if k % 2 == 0:
                # three-digit exponents of either sign, negative values not first on their line of six (added after seeded
                # change C13-J: a field one character wider glues such a number to its neighbour)
                data[1:6] = [-1.12856e-130, 6.193e-129, -7.5e120, 3.3e101, -9.87e-100]
                data[8], data[9], data[11] = -2.5e-300, -1e100, -4.4e250
            atnums = np.array([8, 1, 17])
            atcoords = np.round(rng.uniform(-2, 2, (3, 3)), 6)
            pseudo = np.array([6.0, 1.0, 7.0]) if k % 2 else None
            case = {"sub": "cube", "shape": list(shape), "axes": aname}
            fn = os.path.join(tmp, f"t{k}.cube")
            snap = (data.copy(), atcoords.copy(), atnums.copy())
            g.generate_cube(fn, data, atcoords, atnums, pseudo)
            if not (np.array_equal(data, snap[0]) and np.array_equal(atcoords, snap[1]) and np.array_equal(atnums, snap[2])):
                ctx.violation("cube:argument-modified", "generate_cube modified its arguments", case)
            for unit in ("bohr", "angstrom"):
                ctx.count(section="cube")
                path = fn
                if unit == "angstrom":
                    path = _to_angstrom(fn)
                try:
                    import contextlib
                    import io

                    with contextlib.redirect_stdout(io.StringIO()):
                        g2, cd = UniformGrid.from_cube(path, return_data=True)
                        g3 = UniformGrid.from_cube(path)
                except Exception as exc:
                    ctx.violation(f"cube:{unit}:raised:{type(exc).__name__}", f"from_cube raised {exc}", case)
                    continue
                ctx.nontrivial(("cube", k, unit), section="cube")
                gt = 2e-6 if unit == "bohr" else 6e-6  # printed with 6 decimals (x unit factor)
                bad = []
                if tuple(g2.shape) != tuple(shape) or tuple(g3.shape) != tuple(shape):
                    bad.append("shape")
                # the grid-only read (return_data=False, the default) must give the same grid
                if not (np.array_equal(g3.origin, g2.origin) and np.array_equal(g3.axes, g2.axes)
                        and np.array_equal(g3.points, g2.points) and np.array_equal(g3.weights, g2.weights)):
                    bad.append("grid-only-read-differs-from-full-read")
                if _gt(abs(np.sum(g2.weights) / np.sum(g.weights) - 1), 1e-4):
                    bad.append("weights")
                if _gt(np.max(np.abs(g2.origin - origin)), gt) or _gt(np.max(np.abs(g2.axes - axes)), gt):
                    bad.append("origin/axes")
                if _gt(np.max(np.abs(g2.points - g.points)), gt * (1 + max(shape) * 3)):
                    bad.append("points")
                if not np.array_equal(cd["atnums"], atnums) or _gt(np.max(np.abs(cd["atcoords"] - atcoords)), gt):
                    bad.append("atoms")
                if _gt(np.max(np.abs(cd["atcorenums"] - (pseudo if pseudo is not None else atnums))), 1e-6):
                    bad.append("pseudo-numbers")
                if cd["data"].shape != (n,) or np.any(_gt(np.abs(cd["data"] - data), 6e-5 * np.abs(data) + 1e-98)):
                    bad.append("data")
                if bad:
                    ctx.violation(f"cube:{unit}:round-trip:{'+'.join(bad)}",
                                  f"cube file written and read back ({unit}) does not reproduce {', '.join(bad)} to the printed "
                                  f"precision (shape {shape}, axes {aname})", dict(case, unit=unit))
    finally:
        shutil.rmtree(tmp, ignore_errors=True)


def _to_angstrom(fn):
    """Rewrite a cube file in the angstrom convention (negative first count, lengths / ANG)."""
    lines = open(fn).read().split("\n")
    out = lines[:2]
    natom = int(lines[2].split()[0])
    fmt = lambda v: f"{float(v) / ANG:14.9f}"
    t = lines[2].split()
    out.append(f"{int(t[0]):5d} " + " ".join(fmt(v) for v in t[1:]))
    for i in range(3):
        t = lines[3 + i].split()
        cnt = int(t[0])
        out.append(f"{-cnt if i == 0 else cnt:5d} " + " ".join(fmt(v) for v in t[1:]))
    for i in range(natom):
        t = lines[6 + i].split()
        out.append(f"{int(t[0]):5d} {float(t[1]):11.6f} " + " ".join(fmt(v) for v in t[2:]))
    out += lines[6 + natom:]
    path = fn.replace(".cube", "_ang.cube")
    open(path, "w").write("\n".join(out))
    return path


# ------------------------------------------------------------------------------ 7 interpolation
def _interp_grids():
    from grid.cubic import Tensor1DGrids, UniformGrid
    from grid.basegrid import OneDGrid

    g1 = UniformGrid(np.array([-1.0, -0.8, -1.2]), np.diag([0.3, 0.25, 0.35]), np.array([8, 7, 8]))
    mk = lambda a: OneDGrid(np.array(a), np.ones(len(a)), (a[0], a[-1]))
    g2 = Tensor1DGrids(mk([-1.0, -0.7, -0.45, -0.1, 0.2, 0.4, 0.9]), mk([-0.5, -0.2, 0.0, 0.35, 0.6, 1.0, 1.3, 1.9]),
                       mk([0.0, 0.3, 0.5, 0.9, 1.0, 1.4, 1.6]))
    # fewer than 7 nodes along x (5) and y (6): see the recorded finding "short-axis"
    g3 = UniformGrid(np.array([-0.6, -0.7, -1.2]), np.diag([0.3, 0.25, 0.35]), np.array([5, 6, 7]))
    return {"uniform": g1, "tensor-nonuniform": g2, "uniform-567": g3}


def _falling(a, nu):
    """d^nu/dx^nu x^a = a!/(a-nu)! x^(a-nu)"""
    if nu > a:
        return 0.0, 0
    c = 1.0
    for k in range(nu):
        c *= a - k
    return c, a - nu


def _interp_shard(arg):
    gname, monos, derivs, seed = arg
    res = WorkerResult(section="interpolation")
    g = _interp_grids()[gname]
    x, y, z = g.get_points_along_axes()
    rng = np.random.default_rng([seed, 7])
    # interior evaluation points: inside the range of the interior nodes 1..n-3 used by the splines
    q = np.stack([rng.uniform(a[1], a[len(a) - 3], 5) for a in (x, y, z)], axis=1)
    q = np.vstack([q, [[x[2], y[3], z[2]]], [[0.5 * (x[1] + x[2]), y[2], 0.5 * (z[3] + z[4])]]])
    # "arbitrary interior points" of the box: also the outer cells, beyond the interior nodes the splines are built on
    q = np.vstack([q, [[0.6 * x[0] + 0.4 * x[1], y[2], 0.3 * z[-2] + 0.7 * z[-1]]], [[x[-1], 0.5 * (y[0] + y[1]), z[0]]]])
    p = g.points
    # nodes the library's splines see along each axis: 1 .. n-3, i.e. n - 3 of them; k nodes hold degree min(k - 1, 3)
    holds = [min(len(a) - 3 - 1, 3) for a in (x, y, z)]
    for (a, b, c) in monos:
        vals = p[:, 0] ** a * p[:, 1] ** b * p[:, 2] ** c
        keep = vals.copy()
        for (nx, ny, nz) in derivs:
            res.count(len(q))
            case = {"sub": "interp", "grid": gname, "monomial": [a, b, c], "nu": [nx, ny, nz]}
            (ca, ea), (cb, eb), (cc, ec) = _falling(a, nx), _falling(b, ny), _falling(c, nz)
            ref = ca * cb * cc * q[:, 0] ** ea * q[:, 1] ** eb * q[:, 2] ** ec
            try:
                with warnings.catch_warnings():
                    warnings.simplefilter("ignore")
                    got = np.asarray(g.interpolate(q, vals, nu_x=nx, nu_y=ny, nu_z=nz), dtype=float)
            except Exception as exc:
                res.violation(f"interp:cubic:raised:{type(exc).__name__}", f"interpolate raised {exc}", case)
                continue
            res.nontrivial()
            scale = 1.0 + np.abs(ref)
            tol = 2e-9 * scale * (10.0 ** (nx + ny + nz) if nx + ny + nz else 1.0) ** 0.5
            if got.shape != ref.shape or np.any(_gt(np.abs(got - ref), tol)):
                kind = "value" if (nx, ny, nz) == (0, 0, 0) else "derivative"
                if got.shape == ref.shape and (a > holds[0] or b > holds[1] or c > holds[2]):
                    # recorded finding: with fewer than 7 nodes along an axis the n - 3 interior nodes cannot hold a cubic
                    res.violation("interp:cubic:short-axis:interior-node-splines-cannot-hold-the-degree",
                                  f"{gname} (shape {[len(x), len(y), len(z)]}): x^{a} y^{b} z^{c} is not reproduced; the splines "
                                  f"use the nodes 1..n-3 of each axis and hold degrees {holds} only", case)
                    continue
                res.violation(f"interp:cubic:{kind}-not-reproduced",
                              f"{gname}: d^({nx},{ny},{nz}) of x^{a} y^{b} z^{c}: max error "
                              f"{np.max(np.abs(got - ref)) if got.shape == ref.shape else 'shape'}", case)
            else:
                res.maximum("interp_err", float(np.max(np.abs(got - ref) / scale)))
        if not np.array_equal(vals, keep):
            res.violation("interp:argument-modified", "interpolate modified the values", {"sub": "interp"})
    return res.as_dict()


def sub_interp_extra(ctx):
    """log variant and linear method."""
    gs = _interp_grids()
    rng = np.random.default_rng([ctx.seed, 71])
    for gname, g in gs.items():
        x, y, z = g.get_points_along_axes()
        q = np.stack([rng.uniform(a[1], a[len(a) - 3], 4) for a in (x, y, z)], axis=1)
        p = g.points
        # log variant: f = exp(P), P cubic in each variable; single-variable derivatives up to order 3
        P = lambda t: 0.3 * t[:, 0] ** 3 - 0.2 * t[:, 0] * t[:, 1] ** 2 + 0.1 * t[:, 2] ** 3 * t[:, 1] + 0.4 * t[:, 2] - 0.3
        vals = np.exp(P(p))
        import sympy as sp

        sx, sy, sz = sp.symbols("x y z")
        expr = sp.exp(sp.Rational(3, 10) * sx**3 - sp.Rational(1, 5) * sx * sy**2 + sp.Rational(1, 10) * sz**3 * sy
                      + sp.Rational(2, 5) * sz - sp.Rational(3, 10))
        for var, kw in ((sx, "nu_x"), (sy, "nu_y"), (sz, "nu_z")):
            for nu in range(0, 4):
                if gname == "uniform-567":
                    continue      # the log variant sits on the cubic splines: short axes are the recorded finding
                ctx.count(len(q), section="interp-log")
                case = {"sub": "interp-log", "grid": gname, "var": kw, "nu": nu}
                f = sp.lambdify((sx, sy, sz), sp.diff(expr, var, nu), "numpy")
                ref = f(q[:, 0], q[:, 1], q[:, 2]) * np.ones(len(q))
                try:
                    with warnings.catch_warnings():
                        warnings.simplefilter("ignore")
                        got = np.asarray(g.interpolate(q, vals, use_log=True, **{kw: nu}), dtype=float)
                except Exception as exc:
                    ctx.violation(f"interp:log:raised:{type(exc).__name__}", f"{exc}", case)
                    continue
                ctx.nontrivial(("log", gname, kw, nu), section="interp-log")
                if np.any(_gt(np.abs(got - ref), 1e-7 * (1 + np.abs(ref)) * 10.0**nu)):
                    ctx.violation("interp:log:not-reproduced", f"{gname}: d^{nu}/d{kw[-1]}^{nu} of exp(cubic) through the log variant: "
                                  f"max error {np.max(np.abs(got - ref)):.3e}", case)
        # linear method through the logarithmic variant: exp(trilinear) is reproduced (fixed in a4f487a: the
        # logarithm itself was returned); the nearest method returns the same node value with and without use_log
        T = lambda t: 0.3 * t[:, 0] * t[:, 1] * t[:, 2] - 0.2 * t[:, 0] * t[:, 1] + 0.5 * t[:, 2] - 0.1
        qa = np.vstack([q, [[x[0], y[0], z[0]]], [[0.5 * (x[0] + x[1]), y[-1], 0.25 * z[-2] + 0.75 * z[-1]]]])
        ctx.count(2 * len(qa), section="interp-linear")
        pos = np.exp(T(p))
        got = np.asarray(g.interpolate(qa, pos, use_log=True, method="linear"), dtype=float)
        ctx.nontrivial(("lin-log", gname), section="interp-linear")
        if got.shape != (len(qa),) or np.any(_gt(np.abs(got - np.exp(T(qa))), 1e-12 * (1 + np.exp(T(qa))))):
            ctx.violation("interp:linear:log-variant-not-reproduced", f"{gname}: exp(trilinear) through use_log=True, method='linear': "
                          f"max error {np.max(np.abs(got - np.exp(T(qa)))) if got.shape == (len(qa),) else 'shape'}",
                          {"sub": "interp-linear", "grid": gname})
        n0 = np.asarray(g.interpolate(qa, pos, method="nearest"), dtype=float)
        n1 = np.asarray(g.interpolate(qa, pos, use_log=True, method="nearest"), dtype=float)
        if n0.shape != n1.shape or np.any(_gt(np.abs(n0 - n1), 1e-12 * (1 + np.abs(n0)))) or not np.all(np.isin(np.round(n0, 12), np.round(pos, 12))):
            ctx.violation("interp:nearest:log-variant-differs", f"{gname}: method='nearest' with and without use_log differ, or do not "
                          f"return node values", {"sub": "interp-linear", "grid": gname})
        # linear method reproduces trilinear functions (also in the outermost cells and on the faces)
        q = qa
        for a, b, c in itertools.product((0, 1), repeat=3):
            ctx.count(len(q), section="interp-linear")
            vals = p[:, 0] ** a * p[:, 1] ** b * p[:, 2] ** c
            ref = q[:, 0] ** a * q[:, 1] ** b * q[:, 2] ** c
            got = np.asarray(g.interpolate(q, vals, method="linear"), dtype=float)
            ctx.nontrivial(("lin", gname, a, b, c), section="interp-linear")
            if np.any(_gt(np.abs(got - ref), 1e-12 * (1 + np.abs(ref)))):
                ctx.violation("interp:linear:trilinear-not-reproduced", f"{gname}: x^{a} y^{b} z^{c}",
                              {"sub": "interp-linear", "grid": gname})


def sub_homogeneity(ctx):
    """interpolate(q, s v) = s interpolate(q, v) for the cubic, linear and nearest methods (values of size 1e-18 and 1e15)."""
    g = _interp_grids()["uniform"]
    rng = np.random.default_rng([ctx.seed, 132])
    x, y, z = g.get_points_along_axes()
    q = np.stack([rng.uniform(a[1], a[-3], 3) for a in (x, y, z)], axis=1)
    v = np.cos(g.points[:, 0] + 0.5 * g.points[:, 2]) * np.exp(-g.points[:, 1] ** 2) + 0.3 * g.points[:, 2] * g.points[:, 0]
    for nm, kw in (("cubic", {}), ("cubic-nu", {"nu_x": 1, "nu_z": 1}), ("linear", {"method": "linear"}), ("nearest", {"method": "nearest"})):
        with warnings.catch_warnings():
            warnings.simplefilter("ignore")
            base = np.asarray(g.interpolate(q, v, **kw), dtype=float)
            for sfac in (1e-18, 1e15):
                ctx.count(section="interp-homogeneity")
                got = np.asarray(g.interpolate(q, sfac * v, **kw), dtype=float) / sfac
                ctx.nontrivial(("hom", nm, sfac), section="interp-homogeneity")
                if got.shape != base.shape or _gt(np.max(np.abs(got - base)), 1e-11 * (np.max(np.abs(base)) + 1e-300)):
                    ctx.violation(f"interp:{nm}:not-linear-in-the-values", f"interpolate of {sfac:g} v is not {sfac:g} times that of v",
                                  {"sub": "homogeneity"})


def sub_refill(ctx):
    """One grid instance; the value array and the point array are refilled in place between two interpolate calls."""
    g = _interp_grids()["uniform"]
    rng = np.random.default_rng([ctx.seed, 131])
    x, y, z = g.get_points_along_axes()
    qa = np.stack([rng.uniform(a[1], a[-3], 3) for a in (x, y, z)], axis=1)
    qb = np.stack([rng.uniform(a[1], a[-3], 3) for a in (x, y, z)], axis=1)
    va, vb = np.exp(-np.sum(g.points**2, axis=1)) + 0.1, np.cos(g.points[:, 0]) + 2.0
    for nm, kw in (("cubic", {}), ("cubic-log-nu_x", {"use_log": True, "nu_x": 1}), ("linear", {"method": "linear"}), ("nearest", {"method": "nearest"})):
        with warnings.catch_warnings():
            warnings.simplefilter("ignore")
            lattice.refill_check(ctx, f"interpolate[{nm}]", {"sub": "refill"}, lambda q, v, kw=kw: g.interpolate(q, v, **kw), (qa, va), (qb, vb),
                                 fresh_fn=lambda q, v, kw=kw: _interp_grids()["uniform"].interpolate(q, v, **kw), rtol=1e-12, atol=1e-13)


def sub_dtype_forms(ctx):
    """Whole-number query points and data values in integer dtypes give what their float copies give: closest_point,
    interpolate (every method, with derivatives) and integrate on a grid whose nodes have integer coordinates (argument
    forms, lesson 14; after seeded change C11-I)."""
    from grid.cubic import UniformGrid

    g = UniformGrid(np.array([-4.0, -3.0, -4.0]), np.diag([1.0, 1.0, 1.0]), np.array([9, 8, 9]))
    g2 = UniformGrid(np.array([-2, -3]), np.array([[1, 0], [0, 2]]), np.array([5, 4]))   # integer origin, axes and shape
    gf = UniformGrid(np.array([-2.0, -3.0]), np.array([[1.0, 0.0], [0.0, 2.0]]), np.array([5, 4]))
    ctx.count(section="dtype-forms")
    if not (np.array_equal(g2.points, gf.points) and np.allclose(g2.weights, gf.weights, rtol=1e-14, atol=0)):
        ctx.violation("dtype-forms:integer-origin-and-axes", "UniformGrid built from an integer origin / axes has other points or weights than the float copy "
                      f"(points dtype {np.asarray(g2.points).dtype})", {"sub": "dtype-forms"})
    qi = np.array([[0, 0, 0], [1, -1, 2], [-2, 2, -1], [2, 1, 1]])
    vi = ((np.arange(g.size) * 5) % 13 - 3).astype(np.int64)
    vpos = (vi - vi.min() + 1).astype(np.int64)
    with warnings.catch_warnings():
        warnings.simplefilter("ignore")
        for k, q in enumerate(qi):
            ctx.count(section="dtype-forms")
            for which in ("closest", "origin"):
                try:
                    a, b = g.closest_point(q, which), g.closest_point(q.astype(float), which)
                except Exception as exc:
                    ctx.violation(f"dtype-forms:closest_point:raised:{type(exc).__name__}", f"closest_point(integer point {q.tolist()}, {which!r}): {exc}", {"sub": "dtype-forms"})
                    continue
                ctx.nontrivial(("dtype-forms", "closest", k, which), section="dtype-forms")
                if int(a) != int(b) or int(a) != int(np.argmin(np.linalg.norm(g.points - q, axis=1))):
                    ctx.violation("dtype-forms:closest_point:integer-point-differs", f"closest_point({q.tolist()} as integers, {which!r}) = {a}, as floats {b}", {"sub": "dtype-forms"})
        qf = qi.astype(float) + np.array([0.25, -0.5, 0.125])
        for nm, kw, vals in (("cubic", {}, vi), ("cubic-nu", {"nu_x": 1, "nu_z": 2}, vi), ("linear", {"method": "linear"}, vi),
                             ("nearest", {"method": "nearest"}, vi), ("cubic-log", {"use_log": True}, vpos), ("cubic-log-nu", {"use_log": True, "nu_y": 1}, vpos)):
            for pname, pts in (("float-points", qf), ("integer-points", qi)):
                ctx.count(section="dtype-forms")
                case = {"sub": "dtype-forms", "method": nm, "points": pname}
                try:
                    want = np.asarray(g.interpolate(pts.astype(float), vals.astype(float), **kw), dtype=float)
                    got = np.asarray(g.interpolate(pts, vals, **kw), dtype=float)
                    got32 = np.asarray(g.interpolate(pts, vals.astype(np.int32), **kw), dtype=float)
                except Exception as exc:
                    ctx.violation(f"dtype-forms:interpolate:{nm}:raised:{type(exc).__name__}", f"interpolate[{nm}] with integer-dtype values / {pname}: "
                                  f"{type(exc).__name__}: {exc}", case)
                    continue
                ctx.nontrivial(("dtype-forms", nm, pname), section="dtype-forms")
                sc = np.max(np.abs(want)) + 1e-300
                if got.shape != want.shape or _gt(np.max(np.abs(got - want)), 1e-11 * sc) or _gt(np.max(np.abs(got32 - want)), 1e-11 * sc):
                    ctx.violation(f"dtype-forms:interpolate:{nm}:differs-from-float-copy", f"interpolate[{nm}] with integer-dtype values and {pname} differs "
                                  f"from the float64 copies: {got} vs {want}", case)
        ctx.count(section="dtype-forms")
        a, b = float(g.integrate(vi)), float(g.integrate(vi.astype(float)))
        if _gt(abs(a - b), 1e-12 * abs(b)):
            ctx.violation("dtype-forms:integrate:integer-values-differ", f"integrate of integer-dtype values {a!r}, of the float copy {b!r}", {"sub": "dtype-forms"})


SUBS = {
    "dtype-forms": sub_dtype_forms,
    "index": sub_index_maps, "layout": sub_layout, "weights": sub_weights, "from_molecule": sub_from_molecule,
    "from_molecule_weights": sub_from_molecule_weights,
    "closest": sub_closest, "cube": sub_cube, "interp-extra": sub_interp_extra, "refill": sub_refill, "homogeneity": sub_homogeneity,
}


def run(ctx):
    for name, fn in SUBS.items():
        ctx.guarded(name, fn, ctx)
    monos = list(itertools.product(range(4), repeat=3))
    if ctx.thorough:
        derivs = list(itertools.product(range(4), repeat=3))
    else:
        derivs = [(0, 0, 0), (1, 0, 0), (0, 1, 0), (0, 0, 1), (2, 0, 0), (0, 2, 0), (0, 0, 2), (3, 0, 0), (0, 3, 0), (0, 0, 3),
                  (1, 1, 0), (0, 1, 1), (2, 1, 0), (0, 3, 1), (1, 1, 1), (3, 3, 3)]
    jobs = []
    for gname in ("uniform", "tensor-nonuniform", "uniform-567"):
        for shard in lattice.chunks(monos, 16):
            jobs.append((gname, shard, derivs, ctx.seed))
    for res in lattice.pmap(_interp_shard, jobs, ctx.workers):
        ctx.merge(res)
    ctx.sample({"sub": "interp", "grid": "uniform", "monomial": [3, 2, 1], "nu": [1, 0, 2]})
    ctx.sample({"sub": "weights", "scheme": "Fourier1", "dim": 2, "shape": [3, 5], "axes": "skew"})
    ctx.cov["interp_derivative_orders"] = len(derivs)
    ctx.exhaustive = True


def replay(ctx, case):
    sub = case.get("sub", "")
    if sub == "interp":
        ctx.merge(_interp_shard((case["grid"], [tuple(case["monomial"])], [tuple(case["nu"])], ctx.seed)))
        return
    key = {"layout-uniform": "layout", "layout-tensor": "layout", "interp-log": "interp-extra",
           "interp-linear": "interp-extra"}.get(sub, sub)
    SUBS[key](ctx)
