"""C08 -- real spherical harmonics, their derivatives and solid harmonics are correct.

Engine E2: complete product over a structured angle lattice (azimuth x polar, incl. both poles,
a near-pole angle and angles outside the principal range) x every (l, m) up to l_max.

Oracles (vf/oracles/harm.py): definition from exact rational Legendre coefficients evaluated in
mpmath on the unit vector (l <= 12 quick / 24 thorough); float64 normalised recursion for
l_max in {60, 200} (thorough: 400); Legendre addition theorem on all ordered pairs of directions; angular
derivatives by mp.diff of the oracle; Cartesian closed forms for l <= 3; round trips for the
coordinate conversion.

Readings (DESIGN 3.0): the definition clause is enforced for polar angle in [0, pi] and every real
azimuth; outside [0, pi] the two implementations must agree with each other and the derivative
routine must return the derivative of ``generate_real_spherical_harmonics``.  At the poles
(|tan(polar)| < 1e-10) the polar derivative must be zero (documented convention).
"""

from __future__ import annotations

import itertools
import warnings

import mpmath as mp
import numpy as np

from vf import lattice
from vf.cli import WorkerResult
from vf.oracles import harm


def _gt(a, b):
    """a > b that is also True when a is NaN (a silent NaN must never pass a tolerance test)."""
    return ~(np.asarray(a) <= np.asarray(b))


LEVEL = "exploration"
RULE = (
    "complete product azimuth x polar lattice x all (l,m) <= l_max for values (two "
    "implementations), derivatives (two angles), addition theorem on all ordered direction pairs, "
    "solid harmonics and coordinate round trips; one evaluation = one (function, l, m, angle "
    "pair) comparison; distinct non-trivial = distinct such tuple with a finite reference"
)
ASSUMPTIONS = [
    "mpmath definition oracle (exact Legendre coefficients) and mp.diff are exact for this purpose",
    "absolute tolerance 2e-12*(l+1) on values, 2e-9*(1+|ref|)*(l+1)^2 on derivatives",
]

PI = np.pi
AZ = (0.0, 0.7, PI / 2, PI, -1.1, -PI, 2 * PI + 0.3, 7.5)
POLAR_IN = (0.0, 1e-11, 1e-9, 0.4, PI / 2, PI - 0.2, PI - 1e-9, PI)
POLAR_OUT = (-0.4, PI + 0.5, 2 * PI + 0.3)


def angle_pairs(seed, polar):
    out = []
    for i, (t, p) in enumerate(itertools.product(AZ, polar)):
        tj = lattice.jitter(seed, f"az{i}", t, 0.05) if t not in (0.0, PI, -PI, PI / 2) else t
        pj = lattice.jitter(seed, f"po{i}", p, 0.05) if p not in (0.0, PI, PI / 2, 1e-9, 1e-11, PI - 1e-9) else p
        out.append((tj, pj))
    return out


def _values_shard(arg):
    lmax, seed, which = arg
    from grid.utils import generate_real_spherical_harmonics, generate_real_spherical_harmonics_scipy

    res = WorkerResult(section=f"values:{which}")
    mp.mp.dps = 30
    pairs = angle_pairs(seed, POLAR_IN if which == "principal" else POLAR_OUT)
    theta = np.array([t for t, _ in pairs])
    phi = np.array([p for _, p in pairs])
    with warnings.catch_warnings():
        warnings.simplefilter("ignore")
        rec = np.asarray(generate_real_spherical_harmonics(lmax, theta, phi), dtype=float)
        sci = np.asarray(generate_real_spherical_harmonics_scipy(lmax, theta, phi), dtype=float)
    lm = harm.horton_lm(lmax)
    case = {"route": "values", "lmax": lmax, "which": which}
    if rec.shape != (len(lm), len(theta)) or sci.shape != rec.shape:
        res.count()
        res.violation("values:shape", f"shapes {rec.shape} / {sci.shape} for l_max={lmax}, {len(theta)} points", case)
        return res.as_dict()
    odd_flip = 0
    for row, (l, m) in enumerate(lm):
        tol = 2e-12 * (l + 1)
        for j in range(len(theta)):
            res.count(2)
            ref = float(harm.ylm_mp_angles(l, m, theta[j], phi[j]))
            res.nontrivial()
            if which == "principal":
                for nm, arr in (("recursion", rec), ("scipy", sci)):
                    if _gt(abs(arr[row, j] - ref), tol * (1 + abs(ref))):
                        par = "odd-m" if m % 2 else "even-m"
                        res.violation(f"values:{nm}:differs-from-definition:{par}",
                                      f"{nm} Y(l={l}, m={m}) at azimuth={theta[j]:.6g}, polar={phi[j]:.6g}: {arr[row, j]!r}, "
                                      f"definition {ref!r}", dict(case, l=l, m=m, point=j))
                    else:
                        res.maximum(f"abs_err:{nm}", abs(arr[row, j] - ref))
            else:
                # outside the principal polar range the definition is the harmonic of the direction
                # (sin p cos t, sin p sin t, cos p), i.e. the analytic continuation sin^m: the recursion follows it
                # (compared here; added after seeded change C08-C), the SciPy route is compared with the recursion
                if _gt(abs(rec[row, j] - ref), tol * (1 + abs(ref))):
                    par = "odd-m" if m % 2 else "even-m"
                    res.violation(f"values:recursion:differs-from-definition-outside-principal-range:{par}",
                                  f"recursion Y(l={l}, m={m}) at azimuth={theta[j]:.6g}, polar={phi[j]:.6g}: {rec[row, j]!r}, "
                                  f"harmonic of that direction {ref!r}", dict(case, l=l, m=m, point=j))
                if _gt(abs(rec[row, j] - sci[row, j]), tol * (1 + abs(ref))):
                    if m % 2 and abs(rec[row, j] + sci[row, j]) <= tol * (1 + abs(ref)) and np.sin(phi[j]) < 0:
                        odd_flip += 1
                    else:
                        res.violation("values:implementations-disagree-outside-principal-range",
                                      f"Y(l={l}, m={m}) at azimuth={theta[j]:.6g}, polar={phi[j]:.6g}: recursion {rec[row, j]!r}, "
                                      f"scipy {sci[row, j]!r}", dict(case, l=l, m=m, point=j))
    if odd_flip:
        res.violation("polar-outside-[0,pi]:odd-m:scipy-version-has-opposite-sign",
                      f"for polar angles with sin(polar) < 0 the SciPy-based implementation returns minus the recursion-based "
                      f"one for every odd m ({odd_flip} (l,m,angle) combinations up to l_max={lmax}); it continues |sin|^m "
                      f"evenly while the recursion continues sin^m", case)
    res.sample({"route": "values", "which": which, "lmax": lmax, "angle_pairs": len(theta)})
    return res.as_dict()


def _high_degree(arg):
    lmax, seed = arg
    from grid.utils import generate_real_spherical_harmonics, generate_real_spherical_harmonics_scipy

    res = WorkerResult(section="high-degree")
    pairs = angle_pairs(seed, POLAR_IN)
    theta = np.array([t for t, _ in pairs])
    phi = np.array([p for _, p in pairs])
    ref = harm.ylm_f64_angles(lmax, theta, phi)
    case = {"route": "high", "lmax": lmax}
    with warnings.catch_warnings():
        warnings.simplefilter("ignore")
        for nm, fn in (("recursion", generate_real_spherical_harmonics), ("scipy", generate_real_spherical_harmonics_scipy)):
            got = np.asarray(fn(lmax, theta, phi), dtype=float)
            res.count(got.size)
            res.nontrivial(n=got.shape[0])
            if not np.all(np.isfinite(got)):
                res.violation(f"high-degree:{nm}:non-finite", f"{nm} returns non-finite values at l_max={lmax}", case)
                continue
            l_of_row = np.floor(np.sqrt(np.arange(got.shape[0]))).astype(int)
            err = np.abs(got - ref) / (1 + np.abs(ref))
            tol = (5e-12 * (l_of_row + 1))[:, None]
            if np.any(_gt(err, tol)):
                row, j = np.unravel_index(np.argmax(err / tol), err.shape)
                l, m = harm.horton_lm(lmax)[row]
                res.violation(f"high-degree:{nm}:differs-from-reference",
                              f"{nm} Y(l={l}, m={m}) at azimuth={theta[j]:.6g}, polar={phi[j]:.6g}: {got[row, j]!r} vs {ref[row, j]!r}",
                              dict(case, l=int(l), m=int(m)))
            res.maximum(f"high_err:{nm}", float(np.max(err)))
    # addition theorem on all ordered pairs of the directions (library values only)
    with warnings.catch_warnings():
        warnings.simplefilter("ignore")
        y = np.asarray(generate_real_spherical_harmonics(lmax, theta, phi), dtype=float)
    s = np.sin(phi)
    d = np.stack([s * np.cos(theta), s * np.sin(theta), np.cos(phi)], axis=1)
    cosg = np.clip(d @ d.T, -1, 1)
    np.fill_diagonal(cosg, 1.0)
    p0, p1 = np.ones_like(cosg), cosg.copy()
    for l in range(lmax + 1):
        if l == 0:
            pl = p0
        elif l == 1:
            pl = p1
        else:
            pl = ((2 * l - 1) * cosg * p1 - (l - 1) * p0) / l
            p0, p1 = p1, pl
        blk = y[l * l : (l + 1) ** 2]
        res.count(cosg.size)
        res.nontrivial()
        bound = 1e-12 * (2 * l + 1) + 1e-15 * l * (l + 1) / 2 * (2 * l + 1) / (4 * PI) * 4
        err = np.max(np.abs(blk.T @ blk - (2 * l + 1) / (4 * PI) * pl))
        if _gt(err, bound):
            res.violation("addition-theorem", f"sum_m Y_lm(a) Y_lm(b) differs from (2l+1)/(4 pi) P_l(cos gamma) by {err:.3e} at l={l}",
                          dict(case, l=l))
            break
    return res.as_dict()


def _deriv_shard(arg):
    lmax, seed, which = arg
    from grid.utils import generate_derivative_real_spherical_harmonics

    res = WorkerResult(section=f"derivative:{which}")
    mp.mp.dps = 30
    pairs = angle_pairs(seed, POLAR_IN if which == "principal" else POLAR_OUT)
    theta = np.array([t for t, _ in pairs])
    phi = np.array([p for _, p in pairs])
    case = {"route": "deriv", "lmax": lmax, "which": which}
    with warnings.catch_warnings():
        warnings.simplefilter("ignore")
        with np.errstate(all="ignore"):
            out = np.asarray(generate_derivative_real_spherical_harmonics(lmax, theta, phi), dtype=float)
    lm = harm.horton_lm(lmax)
    if out.shape != (2, len(lm), len(theta)):
        res.count()
        res.violation("derivative:shape", f"shape {out.shape}", case)
        return res.as_dict()
    odd_bad = 0
    for row, (l, m) in enumerate(lm):
        for j in range(len(theta)):
            res.count(2)
            pole = abs(np.tan(phi[j])) < 1e-10
            t, p = mp.mpf(float(theta[j])), mp.mpf(float(phi[j]))
            d_az = float(mp.diff(lambda a: harm.ylm_mp_angles(l, m, a, p), t))
            tol = 2e-9 * (l + 1) ** 2
            if not np.all(np.isfinite(out[:, row, j])):
                res.violation("derivative:non-finite", f"non-finite derivative for (l={l}, m={m}) at polar={phi[j]:.6g}", dict(case, l=l, m=m))
                continue
            res.nontrivial()
            if _gt(abs(out[0, row, j] - d_az), tol * (1 + abs(d_az))):
                if which != "principal" and np.sin(phi[j]) < 0 and m % 2:
                    odd_bad += 1
                else:
                    res.violation("derivative:azimuthal:differs-from-true-derivative",
                                  f"d/d(azimuth) Y(l={l}, m={m}) at ({theta[j]:.6g}, {phi[j]:.6g}): {out[0, row, j]!r}, true {d_az!r}",
                                  dict(case, l=l, m=m, point=j))
            if pole:
                # documented convention: the polar derivative is (numerically) zero at the poles
                if _gt(abs(out[1, row, j]), 1e-10 * (l + 1) ** 2):
                    res.violation("derivative:polar:not-zero-at-pole",
                                  f"d/d(polar) Y(l={l}, m={m}) at the pole polar={phi[j]!r} (azimuth {theta[j]:.6g}) is "
                                  f"{out[1, row, j]!r}; the documented convention is zero", dict(case, l=l, m=m, point=j))
                continue
            d_po = float(mp.diff(lambda b: harm.ylm_mp_angles(l, m, t, b), p))
            near = abs(np.sin(phi[j])) < 1e-6
            if _gt(abs(out[1, row, j] - d_po), (1e-5 if near else tol) * (1 + abs(d_po))):
                if which != "principal" and np.sin(phi[j]) < 0:
                    odd_bad += 1
                else:
                    res.violation("derivative:polar:differs-from-true-derivative",
                                  f"d/d(polar) Y(l={l}, m={m}) at ({theta[j]:.6g}, {phi[j]:.6g}): {out[1, row, j]!r}, true {d_po!r}",
                                  dict(case, l=l, m=m, point=j))
            else:
                res.maximum("deriv_err", abs(out[1, row, j] - d_po) / (1 + abs(d_po)))
    if odd_bad:
        res.violation("polar-outside-[0,pi]:derivative-inconsistent-with-recursion-values",
                      f"for polar angles with sin(polar) < 0 the derivative routine is not the derivative of "
                      f"generate_real_spherical_harmonics ({odd_bad} components up to l_max={lmax}): it mixes the recursion "
                      f"values with a raising term taken from SciPy, which continues the harmonics differently there", case)
    return res.as_dict()


def _small_and_high(arg):
    """(a) "every maximum degree": the output for l_max = 0 .. 8 is the leading block of the output for l_max = 12 (whose
    rows are compared with the definition elsewhere), for both value routines, the derivative routine and the solid
    harmonics.  (b) derivatives at high degree: d/d(azimuth) Y_lm = -m Y_l,-m exactly (oracle rows), d/d(polar) against
    central differences of the float64 oracle."""
    seed = arg
    from grid.utils import (generate_derivative_real_spherical_harmonics, generate_real_spherical_harmonics,
                            generate_real_spherical_harmonics_scipy, solid_harmonics)

    res = WorkerResult(section="small-and-high-degree")
    pairs = angle_pairs(seed, POLAR_IN)
    theta = np.array([t for t, _ in pairs])
    phi = np.array([p for _, p in pairs])
    sph = np.stack([np.linspace(0.3, 2.0, len(theta)), theta, phi], axis=1)
    fns = {"recursion": lambda L: generate_real_spherical_harmonics(L, theta, phi),
           "scipy": lambda L: generate_real_spherical_harmonics_scipy(L, theta, phi),
           "derivative": lambda L: generate_derivative_real_spherical_harmonics(L, theta, phi),
           "solid": lambda L: solid_harmonics(L, sph)}
    with warnings.catch_warnings():
        warnings.simplefilter("ignore")
        with np.errstate(all="ignore"):
            for nm, fn in fns.items():
                big = np.asarray(fn(12), dtype=float)
                for L in range(0, 9):
                    res.count()
                    case = {"route": "small", "function": nm, "lmax": L}
                    try:
                        small = np.asarray(fn(L), dtype=float)
                    except Exception as exc:
                        res.violation(f"small-degree:{nm}:raised:{type(exc).__name__}", f"{nm} with l_max={L} raised {type(exc).__name__}: {exc}", case)
                        continue
                    n = (L + 1) ** 2
                    lead = big[..., :n, :]
                    res.nontrivial()
                    if small.shape != lead.shape or not np.allclose(small, lead, rtol=1e-12, atol=1e-13, equal_nan=True):
                        res.violation(f"small-degree:{nm}:not-the-leading-block", f"{nm} with l_max={L} (shape {small.shape}) is not the leading "
                                      f"{n} rows of the l_max=12 output", case)
            # (b)
            LH = 40
            keep = (np.abs(np.sin(phi)) > 1e-3)
            th, ph = theta[keep], phi[keep]
            out = np.asarray(generate_derivative_real_spherical_harmonics(LH, th, ph), dtype=float)
            y = harm.ylm_f64_angles(LH, th, ph)
            h = 1e-5
            dpo = (harm.ylm_f64_angles(LH, th, ph + h) - harm.ylm_f64_angles(LH, th, ph - h)) / (2 * h)
            lm = harm.horton_lm(LH)
            daz = np.zeros_like(y)
            for row, (l, m) in enumerate(lm):
                if m:
                    daz[row] = -m * y[harm.row_of(l, -m)]
            res.count(2 * y.size)
            res.nontrivial(n=len(lm))
            case = {"route": "small", "function": "derivative-high", "lmax": LH}
            lrow = np.array([l for l, _ in lm], dtype=float)[:, None]
            if out.shape != (2,) + y.shape:
                res.violation("derivative-high:shape", f"shape {out.shape}", case)
            else:
                e0 = np.abs(out[0] - daz) / (1 + np.abs(daz))
                if np.any(_gt(e0, 1e-10 * (lrow + 1) ** 2)):
                    r, j = np.unravel_index(np.argmax(e0), e0.shape)
                    res.violation("derivative-high:azimuthal:differs-from--m-times-partner", f"d/d(azimuth) Y{lm[r]} at ({th[j]:.4g}, {ph[j]:.4g}) = "
                                  f"{out[0, r, j]!r}, -m Y(l,-m) = {daz[r, j]!r}", case)
                e1 = np.abs(out[1] - dpo) / (1 + np.abs(dpo))
                if np.any(_gt(e1, 2e-6 * (lrow + 1) ** 2)):
                    r, j = np.unravel_index(np.argmax(e1), e1.shape)
                    res.violation("derivative-high:polar:differs-from-central-difference", f"d/d(polar) Y{lm[r]} at ({th[j]:.4g}, {ph[j]:.4g}) = "
                                  f"{out[1, r, j]!r}, central difference of the reference {dpo[r, j]!r}", case)
                res.maximum("deriv_high_polar_err", float(np.max(e1)))
    return res.as_dict()


def refill_histories(ctx):
    from grid.utils import (convert_cart_to_sph, generate_derivative_real_spherical_harmonics, generate_real_spherical_harmonics,
                            generate_real_spherical_harmonics_scipy, solid_harmonics)

    rng = np.random.default_rng([ctx.seed, 88])
    ta, tb = rng.uniform(-3, 3, 7), rng.uniform(-3, 3, 7)
    pa, pb = rng.uniform(0.1, 3.0, 7), rng.uniform(0.1, 3.0, 7)
    ca, cb = rng.normal(size=(7, 3)), rng.normal(size=(7, 3))
    case = {"route": "refill"}
    with warnings.catch_warnings():
        warnings.simplefilter("ignore")
        for nm, fn in (("generate_real_spherical_harmonics", lambda t, p: generate_real_spherical_harmonics(5, t, p)),
                       ("generate_real_spherical_harmonics_scipy", lambda t, p: generate_real_spherical_harmonics_scipy(5, t, p)),
                       ("generate_derivative_real_spherical_harmonics", lambda t, p: generate_derivative_real_spherical_harmonics(4, t, p))):
            lattice.refill_check(ctx, nm, case, fn, (ta, pa), (tb, pb))
        lattice.refill_check(ctx, "solid_harmonics", case, lambda sp: solid_harmonics(4, sp), (np.stack([pa, ta, pa], axis=1),), (np.stack([pb, tb, pb], axis=1),))
        lattice.refill_check(ctx, "convert_cart_to_sph", case, lambda x, c: convert_cart_to_sph(x, c), (ca, ca[0]), (cb, cb[1]))


def solid_and_conversion(ctx):
    from grid.utils import convert_cart_to_sph, solid_harmonics

    rng = np.random.default_rng([ctx.seed, 8])
    # -- solid harmonics
    lmax = 8
    pairs = angle_pairs(ctx.seed, POLAR_IN)
    theta = np.array([t for t, _ in pairs])
    phi = np.array([p for _, p in pairs])
    r = np.array([0.0, 0.3, 1.0, 2.5, 7.0, 1e-5] * (len(theta) // 6 + 1))[: len(theta)]
    with warnings.catch_warnings():
        warnings.simplefilter("ignore")
        got = np.asarray(solid_harmonics(lmax, np.stack([r, theta, phi], axis=1)), dtype=float)
    y = harm.ylm_f64_angles(lmax, theta, phi)
    for row, (l, m) in enumerate(harm.horton_lm(lmax)):
        ctx.count(len(r), section="solid")
        ref = np.sqrt(4 * PI / (2 * l + 1)) * r**l * y[row]
        ctx.nontrivial(("solid", l, m), section="solid")
        if np.any(_gt(np.abs(got[row] - ref), 1e-11 * (1 + np.abs(ref)))):
            ctx.violation("solid:differs-from-definition", f"solid harmonic (l={l}, m={m}) differs from sqrt(4pi/(2l+1)) r^l Y_lm",
                          {"route": "solid", "l": l, "m": m})
    # Cartesian closed forms pin ordering independently of any spherical convention
    s = np.sin(phi)
    x, yy, z = r * s * np.cos(theta), r * s * np.sin(theta), r * np.cos(phi)
    forms = {(0, 0): np.ones_like(x), (1, 0): z, (1, 1): x, (1, -1): yy, (2, 0): (3 * z * z - r * r) / 2,
             (2, 1): np.sqrt(3) * x * z, (2, -1): np.sqrt(3) * yy * z, (2, 2): np.sqrt(3) / 2 * (x * x - yy * yy),
             (2, -2): np.sqrt(3) * x * yy, (3, 0): z * (5 * z * z - 3 * r * r) / 2,
             (3, 3): np.sqrt(5 / 8) * (x**3 - 3 * x * yy * yy), (3, -3): np.sqrt(5 / 8) * (3 * x * x * yy - yy**3)}
    for (l, m), ref in forms.items():
        ctx.count(len(r), section="solid")
        ctx.nontrivial(("cart", l, m), section="solid")
        if np.any(_gt(np.abs(got[harm.row_of(l, m)] - ref), 1e-11 * (1 + np.abs(ref)))):
            ctx.violation("solid:differs-from-cartesian-form", f"solid harmonic (l={l}, m={m}) differs from its Cartesian closed form",
                          {"route": "solid", "l": l, "m": m})
    # -- every number of points from 1 to 5 (a 3 x 3 input is still three points in rows: seeded change C08-J)
    for npts in range(1, 6):
        sp = np.stack([np.linspace(0.4, 1.7, npts), np.linspace(-2.0, 2.5, npts), np.linspace(0.3, 2.6, npts)], axis=1)
        ctx.count(section="solid")
        got = np.asarray(solid_harmonics(3, sp), dtype=float)
        yy = harm.ylm_f64_angles(3, sp[:, 1], sp[:, 2])
        want = np.array([np.sqrt(4 * np.pi / (2 * l + 1)) * sp[:, 0] ** l * yy[row] for row, (l, m) in enumerate(harm.horton_lm(3))])
        if got.shape != want.shape or np.any(_gt(np.abs(got - want), 1e-12 * (1 + np.abs(want)))):
            ctx.violation("solid:few-points:differs-from-definition", f"solid_harmonics for {npts} point(s) given as rows (r, azimuth, polar) "
                          f"differs from sqrt(4pi/(2l+1)) r^l Y_lm (shape {got.shape})", {"route": "solid", "npoints": npts})
    # -- high degrees at radii where r^l leaves the float64 range (the routine works and answers in extended precision):
    # the ratio to sqrt(4pi/(2l+1)) Y_lm, taken in the result's own precision, is r^l (added after seeded change C08-K: integer
    # exponents moved the power into float64 -- zeros below 1e-324, infinities above 1e308)
    L = 80
    ang_t, ang_p = np.array([0.7, 2.1, 4.4, 5.9]), np.array([0.4, 1.3, 2.0, 2.9])
    yy = harm.ylm_f64_angles(L, ang_t, ang_p)
    lm = list(harm.horton_lm(L))
    for rad in (1e-5, 2e-3, 0.5, 900.0, 1e5):
        ctx.count(len(lm), section="solid")
        with warnings.catch_warnings(), np.errstate(all="ignore"):
            warnings.simplefilter("ignore")
            got = solid_harmonics(L, np.stack([np.full(4, rad), ang_t, ang_p], axis=1))
        got = np.asarray(got)
        wide = got.dtype.kind == "f" and np.finfo(got.dtype).maxexp > 2000      # extended precision available on this platform
        worst, where = 0.0, None
        for row, (l, m) in enumerate(lm):
            power = np.longdouble(rad) ** l
            if not wide and not (1e-290 < float(power) < 1e290):
                continue
            base = np.sqrt(4 * PI / (2 * l + 1)) * yy[row]
            ok = np.abs(base) > 1e-3       # away from the zeros of Y_lm, where the float64 oracle is relatively accurate
            if not np.any(ok):
                continue
            ratio = np.asarray(got[row], dtype=np.longdouble)[ok] / np.asarray(base[ok], dtype=np.longdouble) / power
            dev = float(np.max(np.abs(ratio - 1))) if np.all(np.isfinite(ratio.astype(float))) else np.inf
            if _gt(dev, worst):
                worst, where = dev, (l, m)
        ctx.nontrivial(("solid-extreme", rad), section="solid")
        if _gt(worst, 1e-9):
            ctx.violation("solid:extreme-radius:differs-from-definition", f"solid harmonics up to degree {L} at r = {rad}: (l, m) = {where} deviates from "
                          f"sqrt(4pi/(2l+1)) r^l Y_lm by the relative amount {worst:.3e} (result dtype {got.dtype})", {"route": "solid", "radius": rad})
    # -- coordinate conversion
    for centre in (None, np.array([1.0, -2.0, 0.5])):
        c = np.zeros(3) if centre is None else centre
        rr = np.array([0.0, 1e-9, 0.5, 2.0, 30.0])
        tt = np.array([-3.0, -1.1, 0.0, 0.9, 2.8, PI])
        pp = np.array([0.0, 0.3, PI / 2, 2.5, PI])
        sph = np.array(list(itertools.product(rr, tt, pp)))
        cart = np.stack([sph[:, 0] * np.sin(sph[:, 2]) * np.cos(sph[:, 1]), sph[:, 0] * np.sin(sph[:, 2]) * np.sin(sph[:, 1]),
                         sph[:, 0] * np.cos(sph[:, 2])], axis=1) + c
        cart = np.vstack([cart, c[None, :], rng.normal(size=(20, 3)) * 3 + c])
        keep = cart.copy()
        back = convert_cart_to_sph(cart, centre)
        ctx.count(len(cart), section="conversion")
        ctx.nontrivial(("conv", centre is None), section="conversion")
        if not np.array_equal(cart, keep):
            ctx.violation("conversion:argument-modified", "convert_cart_to_sph modified its argument", {"route": "conv"})
        re = np.stack([back[:, 0] * np.sin(back[:, 2]) * np.cos(back[:, 1]), back[:, 0] * np.sin(back[:, 2]) * np.sin(back[:, 1]),
                       back[:, 0] * np.cos(back[:, 2])], axis=1) + c
        scale = 1 + np.linalg.norm(cart - c, axis=1)
        if back.shape != (len(cart), 3) or np.any(np.linalg.norm(re - cart, axis=1) > 1e-12 * scale):
            ctx.violation("conversion:does-not-invert-parametrisation", "cart -> sph -> cart does not reproduce the points",
                          {"route": "conv", "centre": None if centre is None else centre.tolist()})
        if np.any(back[:, 0] < 0) or np.any(back[:, 2] < 0) or np.any(back[:, 2] > PI + 1e-15) or np.any(np.abs(back[:, 1]) > PI + 1e-15) \
                or not np.all(np.isfinite(back)):
            ctx.violation("conversion:angles-out-of-range", "r<0, polar outside [0,pi], azimuth outside [-pi,pi] or non-finite",
                          {"route": "conv"})
        # special directions have exactly known angles: the axes, the negative x axis (azimuth +-pi), the xy diagonals
        if centre is not None or True:
            c0 = np.zeros(3) if centre is None else centre
            dirs = np.array([[1.0, 0, 0], [-1.0, 0, 0], [0, 1.0, 0], [0, -1.0, 0], [0, 0, 1.0], [0, 0, -1.0], [1.0, 1.0, 0], [-1.0, 1.0, 0],
                             [-2.0, -2.0, 0], [0, 3.0, 3.0]])
            want_t = np.array([0, PI, PI / 2, -PI / 2, None, None, PI / 4, 3 * PI / 4, -3 * PI / 4, PI / 2], dtype=object)
            want_p = np.array([PI / 2, PI / 2, PI / 2, PI / 2, 0.0, PI, PI / 2, PI / 2, PI / 2, PI / 4])
            got = np.asarray(convert_cart_to_sph(dirs * 2.0 + c0, None if centre is None else centre), dtype=float)
            ctx.count(len(dirs), section="conversion")
            for k in range(len(dirs)):
                ok = abs(got[k, 0] - 2.0 * np.linalg.norm(dirs[k])) <= 1e-12 * (1 + np.linalg.norm(c0)) and abs(got[k, 2] - want_p[k]) <= 1e-9 * (1 + np.linalg.norm(c0))
                if want_t[k] is not None:
                    dt = abs(got[k, 1] - float(want_t[k]))
                    ok = ok and min(dt, abs(dt - 2 * PI)) <= 1e-9 * (1 + np.linalg.norm(c0))
                if not ok:
                    ctx.violation("conversion:special-direction", f"convert_cart_to_sph of the point centre + 2 x {dirs[k].tolist()} gives "
                                  f"(r, azimuth, polar) = {got[k].tolist()}", {"route": "conv"})
                    break
        # whole-number points in an integer dtype give the angles of their float copies
        ints = np.array([[1, 0, 0], [-2, 1, 0], [0, 0, -3], [2, -2, 1], [0, 0, 0]])
        gi = np.asarray(convert_cart_to_sph(ints, None if centre is None else centre), dtype=float)
        gf = np.asarray(convert_cart_to_sph(ints.astype(float), None if centre is None else centre), dtype=float)
        ctx.count(len(ints), section="conversion")
        if gi.shape != gf.shape or not np.allclose(gi, gf, rtol=1e-14, atol=1e-14, equal_nan=False):
            ctx.violation("conversion:integer-points-differ", "convert_cart_to_sph of an integer array differs from its float copy", {"route": "conv"})
        # generic interior points: sph -> cart -> sph is the identity
        gen = (sph[:, 0] > 1e-6) & (sph[:, 2] > 1e-3) & (sph[:, 2] < PI - 1e-3) & (np.abs(sph[:, 1]) < PI - 1e-3)
        b2 = back[: len(sph)][gen]
        if np.any(_gt(np.abs(b2 - sph[gen]), 1e-9 * (1 + np.abs(sph[gen])))):
            ctx.violation("conversion:sph-cart-sph-not-identity", "sph -> cart -> sph changes generic points", {"route": "conv"})


def run(ctx):
    st = harm.selftest(lmax_mp=10, lmax_add=120)
    ctx.cov["oracle_selftest"] = st
    lv = 24 if ctx.thorough else 12
    ld = 12 if ctx.thorough else 7
    jobs = []
    # split the value check over l ranges? one job per (which); the mp oracle dominates
    for which in ("principal", "outside"):
        jobs.append(("values", (lv, ctx.seed, which)))
        jobs.append(("deriv", (ld, ctx.seed, which)))
    for lmax in ((60, 200, 400) if ctx.thorough else (60, 200)):
        jobs.append(("high", (lmax, ctx.seed)))
    jobs.append(("small", ctx.seed))
    for res in lattice.pmap(_dispatch, jobs, ctx.workers):
        ctx.merge(res)
    solid_and_conversion(ctx)
    ctx.guarded("refill", refill_histories, ctx)
    ctx.cov["lmax_values_vs_definition"] = lv
    ctx.cov["lmax_derivatives"] = ld
    ctx.cov["azimuths"] = list(AZ)
    ctx.cov["polar_principal"] = list(POLAR_IN)
    ctx.cov["polar_outside"] = list(POLAR_OUT)
    ctx.exhaustive = True


def _dispatch(job):
    kind, arg = job
    return {"values": _values_shard, "deriv": _deriv_shard, "high": _high_degree, "small": _small_and_high}[kind](arg)


def replay(ctx, case):
    if case.get("route") == "refill":
        return refill_histories(ctx)
    if case.get("route") == "small":
        return ctx.merge(_small_and_high(ctx.seed))
    r = case.get("route")
    if r == "values":
        ctx.merge(_values_shard((case["lmax"], ctx.seed, case["which"])))
    elif r == "deriv":
        ctx.merge(_deriv_shard((case["lmax"], ctx.seed, case["which"])))
    elif r == "high":
        ctx.merge(_high_degree((case["lmax"], ctx.seed)))
    else:
        solid_and_conversion(ctx)
