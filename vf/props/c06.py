"""C06 -- atom-in-molecule weights form a partition of unity on every geometry.

Engine E2: atom count 1..6 (the chunked path starts at 4 atoms) x element assignments over
{1, 2, 6, 8, 10, 36, 85, 86} (2, 10, 36, 85, 86 have no Bragg radius; 86 needs the second
fallback) -- all assignments for <= 3 atoms, <= 2 deviations from homonuclear above -- x 3
geometries from a pool of sites (generic, collinear, one pair at 1.2 bohr) x a structured point
set (every nucleus, bond midpoints, points on the extension of a bond, near, far (50 bohr))
x switching order 1..5 x segmentations of the points (equal, all-in-one, with empty segments,
uneven).

Oracle: plain-loop Becke reference written from the 1988 definition (one point and one pair at
a time; |a_AB| clipped at 0.45 as the library documents; radius fallback rule): range [0,1],
sum_A w_A = 1, w_A(R_A) = 1, w_A(R_B) = 0; all four evaluation routes equal the reference to
1e-13; invariance under the 24 proper cube rotations x 2 translations and under relabelling of
atoms.  Hirshfeld: sum_A w_A = 1 and w_A = rho_A / sum_B rho_B with rho from the pro-atom
files read directly.
"""

from __future__ import annotations

import itertools
import warnings

import numpy as np

from vf import lattice
from vf.cli import WorkerResult


def _gt(a, b):
    """a > b that is also True when a is NaN (a silent NaN must never pass a tolerance test)."""
    return ~(np.asarray(a) <= np.asarray(b))


LEVEL = "exploration"
RULE = (
    "product atom count x element assignment (deviation-bounded above 3 atoms) x geometry x order "
    "x segmentation; one evaluation = one (route, atom, point) weight; distinct non-trivial = "
    "distinct (configuration, route, atom, point)"
)
ASSUMPTIONS = [
    "Becke (1988) cell functions with |a| clipped at 0.45 and the documented radius fallback are the definition",
    "absolute tolerance 1e-13 between routes and reference; 1e-12 for rigid motions",
]

ELEMENTS = (1, 2, 6, 8, 10, 36, 85, 86)
SITES = np.array([
    [0.0, 0.0, 0.0], [0.0, 0.0, 1.8], [1.6, 0.3, -0.4], [-1.1, 1.7, 0.6], [0.4, -2.1, 1.3], [2.2, 1.9, 2.0],
])
COLLINEAR = np.array([[0.0, 0.0, 1.5 * k] for k in range(6)])
CLOSE = SITES.copy()
CLOSE[1] = [0.0, 0.0, 1.2]
GEOMS = {"generic": SITES, "collinear": COLLINEAR, "close-pair": CLOSE}
TOL = 1e-13
FAR_SHIFT = np.array([8192.0, -16384.0, 4096.0])


# ------------------------------------------------------------------------------ reference model
def bragg():
    from grid.utils import get_cov_radii

    return {i + 1: float(v) for i, v in enumerate(get_cov_radii(np.arange(1, 87), "bragg"))}


def ref_radius(z, table):
    r = table[z]
    if r == r:
        return r
    r1 = table[z - 1]
    if r1 == r1 and r1 != 0:
        return r1
    return table[z - 2]


def ref_weights(points, atcoords, atnums, order, table):
    """W[A, p] by plain loops."""
    n = len(atcoords)
    radii = [ref_radius(int(z), table) for z in atnums]
    W = np.zeros((n, len(points)))
    for ip, p in enumerate(points):
        dist = [float(np.sqrt(np.sum((p - atcoords[a]) ** 2))) for a in range(n)]
        cell = []
        for a in range(n):
            prod = 1.0
            for b in range(n):
                if a == b:
                    continue
                rab = float(np.sqrt(np.sum((atcoords[a] - atcoords[b]) ** 2)))
                mu = (dist[a] - dist[b]) / rab
                u = (radii[a] - radii[b]) / (radii[a] + radii[b])
                al = u / (u * u - 1.0)
                al = max(-0.45, min(0.45, al))
                nu = mu + al * (1.0 - mu * mu)
                for _ in range(order):
                    nu = 1.5 * nu - 0.5 * nu**3
                prod *= 0.5 * (1.0 - nu)
            cell.append(prod)
        tot = sum(cell)
        for a in range(n):
            W[a, ip] = cell[a] / tot
    return W


def point_set(atcoords, seed):
    n = len(atcoords)
    pts = [c.copy() for c in atcoords]
    for a, b in itertools.combinations(range(n), 2):
        pts.append(0.5 * (atcoords[a] + atcoords[b]))
        pts.append(atcoords[b] + 0.7 * (atcoords[b] - atcoords[a]))  # on the extension of the bond
    rng = np.random.default_rng([seed, n, 6])
    pts += list(atcoords[0] + rng.normal(size=(6, 3)) * 0.8)
    pts += list(rng.normal(size=(4, 3)) * 3.0)
    pts += [np.array([50.0, 0.0, 0.0]), np.array([-30.0, 35.0, 20.0]), atcoords[0] + 1e-9]
    return np.array(pts)


def segmentations(npts, natoms):
    """index tables (len natoms+1) : equal split, all in first / last, empty segments, uneven"""
    out = {}
    out["equal"] = np.linspace(0, npts, natoms + 1).astype(int)
    a = np.zeros(natoms + 1, dtype=int)
    a[1:] = npts
    out["all-in-first"] = a
    b = np.zeros(natoms + 1, dtype=int)
    b[-1] = npts
    out["all-in-last"] = b
    if natoms >= 2:
        c = np.linspace(0, npts, natoms + 1).astype(int)
        c[1] = c[0]  # first atom owns nothing
        out["first-empty"] = c
        cuts = sorted({0, npts, *[min(npts, (k * k * 3 + 1) % (npts + 1)) for k in range(1, natoms)]})
        d = np.array(sorted((list(cuts) + [npts] * (natoms + 1))[: natoms + 1]))
        d[0], d[-1] = 0, npts
        out["uneven"] = d
    return out


def rotations():
    mats = []
    for perm in itertools.permutations(range(3)):
        for signs in itertools.product((1, -1), repeat=3):
            m = np.zeros((3, 3))
            for i, (p, s) in enumerate(zip(perm, signs)):
                m[i, p] = s
            if np.linalg.det(m) > 0:
                mats.append(m)
    return mats


def _config(arg):
    gname, atnums, order, seed, full = arg
    from grid.becke import BeckeWeights

    res = WorkerResult(section=f"becke:{len(atnums)}-atoms")
    atnums = np.array(atnums, dtype=int)
    n = len(atnums)
    far = gname.endswith("-far")
    custom = {1: 0.9, 8: 1.35, 86: 2.0, 36: 1.7} if gname.endswith("-radii") else None   # user-supplied covalent radii
    atcoords = GEOMS[gname.replace("-far", "").replace("-radii", "")][:n] + lattice.jitter(seed, f"{gname}{n}", 0.0, 0.03)
    pts = point_set(atcoords, seed)
    if far:
        # the same molecule and its nearby points 1e4 bohr from the origin (added after seeded change C06-I was missed:
        # distances from the expanded square |a|^2 + |p|^2 - 2 a.p lose eps |p|^2 / d there; differences of coordinates
        # do not).  The reference works on the shifted coordinates themselves.
        pts = pts[np.linalg.norm(pts, axis=1) < 12] + FAR_SHIFT
        atcoords = atcoords + FAR_SHIFT
    table = bragg()
    if custom:
        table = dict(table)
        table.update(custom)
    W = ref_weights(pts, atcoords, atnums, order, table)
    case = {"geometry": gname, "atnums": atnums.tolist(), "order": order}
    key = f"{n}-atoms"
    # ---- definition-level facts on the reference itself (sanity of the oracle)
    assert np.all(W >= -1e-15) and np.all(W <= 1 + 1e-15) and np.allclose(W.sum(axis=0), 1.0, atol=1e-13)
    for a in range(n):
        assert abs(W[a, a] - 1.0) < 1e-13 and all(abs(W[a, b]) < 1e-13 for b in range(n) if b != a)
    bw = BeckeWeights(order=order) if not custom else BeckeWeights(radii=dict(custom), order=order)
    snap = (pts.copy(), atcoords.copy(), atnums.copy())
    with warnings.catch_warnings():
        warnings.simplefilter("ignore")
        # ---- route 1: generate_weights per atom, route 2: compute_atom_weight
        for a in range(n):
            for rname, fn in (("generate_weights", lambda: bw.generate_weights(pts, atcoords, atnums, select=a)),
                              ("compute_atom_weight", lambda: bw.compute_atom_weight(pts, atcoords, atnums, a)),
                              ("compute_weights", lambda: bw.compute_weights(pts, atcoords, atnums, select=a))):
                res.count(len(pts))
                try:
                    got = np.asarray(fn(), dtype=float)
                except Exception as exc:
                    res.violation(f"{rname}:raised:{type(exc).__name__}", f"{rname}(select={a}) raised {exc}", case)
                    continue
                res.nontrivial(n=len(pts))
                _compare(res, rname, key, got, W[a], case, a, None)
        # ---- whole-grid routes with segment tables
        segs = segmentations(len(pts), n)
        for sname, idx in segs.items():
            owner = np.zeros(len(pts), dtype=int)
            for a in range(n):
                owner[idx[a]:idx[a + 1]] = a
            want = W[owner, np.arange(len(pts))]
            for rname, fn in (("__call__", lambda: bw(pts, atcoords, atnums, idx)),
                              ("generate_weights-segments", lambda: bw.generate_weights(pts, atcoords, atnums, pt_ind=idx)),
                              ("compute_weights-segments", lambda: bw.compute_weights(pts, atcoords, atnums, pt_ind=idx))):
                res.count(len(pts))
                try:
                    got = np.asarray(fn(), dtype=float)
                except Exception as exc:
                    res.violation(f"{rname}:raised:{type(exc).__name__}", f"{rname} with segmentation {sname} {idx.tolist()} raised "
                                  f"{type(exc).__name__}: {exc}", dict(case, segmentation=sname))
                    continue
                res.nontrivial(n=len(pts))
                _compare(res, rname, key, got, want, dict(case, segmentation=sname), None, sname)
        # ---- segment-wise routes with an explicit atom per sector: sector k belongs to atom select[k]
        # (a reversed and a rotated permutation, a proper sub-list, NumPy integers)
        if n >= 2:
            sels = {"reversed": list(range(n))[::-1], "rolled": [int(v) for v in np.roll(range(n), 1)],
                    "sub-list": list(range(n))[1:], "numpy-ints": list(np.arange(n)[::-1])}
            for sname, idx in segs.items():
                for selname, sel in sels.items():
                    m = len(sel)
                    sub_idx = idx[: m + 1]
                    sub_pts = pts[: sub_idx[-1]]
                    if len(sub_pts) == 0:
                        continue
                    want = np.zeros(len(sub_pts))
                    for k, a in enumerate(sel):
                        want[sub_idx[k]:sub_idx[k + 1]] = W[int(a), sub_idx[k]:sub_idx[k + 1]]
                    for rname, fn in (("generate_weights-select-list", lambda: bw.generate_weights(sub_pts, atcoords, atnums, select=sel, pt_ind=sub_idx)),
                                      ("compute_weights-select-list", lambda: bw.compute_weights(sub_pts, atcoords, atnums, select=sel, pt_ind=sub_idx))):
                        res.count(len(sub_pts))
                        c2 = dict(case, segmentation=sname, select=[int(v) for v in sel])
                        try:
                            got = np.asarray(fn(), dtype=float)
                        except Exception as exc:
                            res.violation(f"{rname}:raised:{type(exc).__name__}", f"{rname}(select={sel}, pt_ind={sub_idx.tolist()}) raised "
                                          f"{type(exc).__name__}: {exc}", c2)
                            continue
                        res.nontrivial(n=len(sub_pts))
                        _compare(res, rname, key, got, want, c2, None, sname)
        # ---- segment tables that do not start at point 0 (points before the first entry belong to no atom and keep weight
        # zero; added after seeded change C06-K laid the owners out from row 0)
        if n >= 2 and len(pts) > n + 3:
            off = 3
            idx = np.concatenate([[off], np.linspace(off, len(pts), n + 1).astype(int)[1:]])
            want = np.zeros(len(pts))
            for a in range(n):
                want[idx[a]:idx[a + 1]] = W[a, idx[a]:idx[a + 1]]
            for rname, fn in (("generate_weights-offset-table", lambda: bw.generate_weights(pts, atcoords, atnums, pt_ind=idx)),
                              ("compute_weights-offset-table", lambda: bw.compute_weights(pts, atcoords, atnums, pt_ind=idx))):
                res.count(len(pts))
                c2 = dict(case, segmentation="offset", table=idx.tolist())
                try:
                    got = np.asarray(fn(), dtype=float)
                except Exception as exc:
                    res.violation(f"{rname}:raised:{type(exc).__name__}", f"{rname}(pt_ind={idx.tolist()}) raised {type(exc).__name__}: {exc}", c2)
                    continue
                res.nontrivial(n=len(pts))
                _compare(res, rname, key, got, want, c2, None, "offset")
        # ---- larger point sets so that several chunks with cuts inside / on / between segments occur
        if full and n >= 4:
            rng = np.random.default_rng([seed, 99])
            big = np.vstack([pts] + [atcoords[a] + rng.normal(size=(7 + 3 * a, 3)) for a in range(n)])
            Wb = ref_weights(big, atcoords, atnums, order, table)
            for sname, idx in segmentations(len(big), n).items():
                owner = np.zeros(len(big), dtype=int)
                for a in range(n):
                    owner[idx[a]:idx[a + 1]] = a
                res.count(len(big))
                try:
                    got = np.asarray(bw(big, atcoords, atnums, idx), dtype=float)
                except Exception as exc:
                    res.violation(f"__call__:raised:{type(exc).__name__}", f"__call__ on {len(big)} points raised "
                                  f"{type(exc).__name__}: {exc}", dict(case, segmentation=sname, big=True))
                    continue
                res.nontrivial(n=len(big))
                _compare(res, "__call__", key, got, Wb[owner, np.arange(len(big))], dict(case, segmentation=sname, big=True), None, sname)
        # ---- rigid motions and relabelling (library vs itself)
        try:
            _motions(res, bw, pts, atcoords, atnums, n, case, full)
        except Exception as exc:
            res.violation(f"generate_weights:raised:{type(exc).__name__}",
                          f"generate_weights raised {type(exc).__name__}: {exc} during the rigid-motion / relabelling checks", case)
    if not all(np.array_equal(x, y) for x, y in zip(snap, (pts, atcoords, atnums))):
        res.violation("argument-modified", "points, coordinates or atomic numbers were modified", case)
    res.sample(dict(case, npoints=len(pts)))
    return res.as_dict()


def _many_case(arg):
    """Many atoms, few points: the whole-grid call then works in chunks of one to three points (the chunk length is
    10 N / M^2, floored at one), so several whole segments lie before, inside and after every chunk."""
    natoms, npts, order, seed = arg
    from grid.becke import BeckeWeights

    res = WorkerResult(section=f"becke:{natoms}-atoms")
    rng = np.random.default_rng([seed, natoms, npts, 17])
    lat = np.array(list(itertools.product(range(3), range(3), range(2))), dtype=float)[:natoms] * 1.9
    atcoords = lat + rng.uniform(-0.2, 0.2, size=lat.shape)
    atnums = np.array([(1, 6, 8, 1, 17, 7, 1, 16, 9, 1, 35, 1, 15, 3, 1, 86, 2, 1)[k] for k in range(natoms)])
    pts = np.vstack([atcoords[: min(natoms, npts // 3)], rng.normal(size=(npts - min(natoms, npts // 3), 3)) * 3.0 + atcoords.mean(axis=0)])
    table = bragg()
    W = ref_weights(pts, atcoords, atnums, order, table)
    bw = BeckeWeights(order=order)
    case = {"route": "many", "natoms": natoms, "npoints": npts, "order": order}
    key = f"{natoms}-atoms"
    with warnings.catch_warnings():
        warnings.simplefilter("ignore")
        for sname, idx in segmentations(len(pts), natoms).items():
            owner = np.zeros(len(pts), dtype=int)
            for a in range(natoms):
                owner[idx[a]:idx[a + 1]] = a
            want = W[owner, np.arange(len(pts))]
            for rname, fn in (("__call__", lambda: bw(pts, atcoords, atnums, idx)),
                              ("generate_weights-segments", lambda: bw.generate_weights(pts, atcoords, atnums, pt_ind=idx)),
                              ("compute_weights-segments", lambda: bw.compute_weights(pts, atcoords, atnums, pt_ind=idx))):
                res.count(len(pts))
                try:
                    got = np.asarray(fn(), dtype=float)
                except Exception as exc:
                    res.violation(f"{rname}:raised:{type(exc).__name__}", f"{rname} with {natoms} atoms, {npts} points, segmentation "
                                  f"{sname} raised {type(exc).__name__}: {exc}", dict(case, segmentation=sname))
                    continue
                res.nontrivial(n=len(pts))
                _compare(res, rname, key, got, want, dict(case, segmentation=sname), None, sname)
        for a in (0, natoms // 2, natoms - 1):
            res.count(len(pts))
            got = np.asarray(bw.compute_atom_weight(pts, atcoords, atnums, a), dtype=float)
            _compare(res, "compute_atom_weight", key, got, W[a], case, a, None)
    return res.as_dict()


def _ring_case(arg):
    """Many atoms at (nearly) the same distance from a point: rings of 12 - 60 atoms with points on the axis, cages of atoms
    on a sphere with points at the centre.  There every cell function is a product of M - 1 factors 1/2, the sum over atoms
    is M 2^-(M-1) (1e-16 for 60 atoms) and the weights are still 1/M each (added after seeded change C06-M: an epsilon
    added to the normaliser "against 0/0" is invisible below about 30 atoms)."""
    shape, natoms, order, seed = arg
    from grid.becke import BeckeWeights

    res = WorkerResult(section=f"becke:{shape}")
    rng = np.random.default_rng([seed, natoms, 23])
    if shape == "ring":
        ang = 2 * np.pi * np.arange(natoms) / natoms
        rad = natoms * 0.35
        atcoords = np.stack([rad * np.cos(ang), rad * np.sin(ang), np.zeros(natoms)], axis=1)
        pts = np.array([[0.0, 0.0, 0.0], [0.0, 0.0, 0.7], [0.0, 0.0, -3.0], [1e-3, -2e-3, 0.4], [0.3, 0.1, 0.0]])
    else:
        k = np.arange(natoms) + 0.5
        phi, th = np.arccos(1 - 2 * k / natoms), np.pi * (1 + 5**0.5) * k
        rad = 1.1 * np.sqrt(natoms)
        atcoords = rad * np.stack([np.cos(th) * np.sin(phi), np.sin(th) * np.sin(phi), np.cos(phi)], axis=1)
        pts = np.array([[0.0, 0.0, 0.0], [1e-3, 2e-3, -1e-3], [0.2, -0.1, 0.3]])
    pts = np.vstack([pts, atcoords[:2] + rng.normal(size=(2, 3)) * 0.3])
    table = bragg()
    bw = BeckeWeights(order=order)
    for mname, atnums in (("homonuclear", np.full(natoms, 6)), ("alternating", np.array([(6, 7)[i % 2] for i in range(natoms)]))):
        case = {"route": "ring", "shape": shape, "natoms": natoms, "order": order, "elements": mname}
        W = ref_weights(pts, atcoords, atnums, order, table)
        with warnings.catch_warnings():
            warnings.simplefilter("ignore")
            total = np.zeros(len(pts))
            for a in range(natoms):
                res.count(len(pts))
                try:
                    got = np.asarray(bw.compute_atom_weight(pts, atcoords, atnums, a), dtype=float)
                except Exception as exc:
                    res.violation(f"compute_atom_weight:raised:{type(exc).__name__}", f"{shape} of {natoms} atoms: {exc}", case)
                    break
                total += got
                if a in (0, 1, natoms // 2, natoms - 1):
                    res.nontrivial(n=len(pts))
                    _compare(res, "compute_atom_weight", f"{shape}-{natoms}", got, W[a], case, a, None)
            else:
                if _gt(np.max(np.abs(total - 1.0)), 1e-12):
                    i = int(np.argmax(np.abs(total - 1.0)))
                    res.violation(f"partition:weights-do-not-sum-to-one:{shape}", f"{shape} of {natoms} {mname} atoms: the weights of all atoms sum to "
                                  f"{total[i]!r} at point {pts[i].tolist()}", case)
            # every point owned by atom a: the routes of a molecular grid
            for a in (0, natoms - 1):
                idx = np.zeros(natoms + 1, dtype=int)
                idx[a + 1:] = len(pts)
                for rname, fn in (("__call__", lambda: bw(pts, atcoords, atnums, idx)),
                                  ("generate_weights-segments", lambda: bw.generate_weights(pts, atcoords, atnums, pt_ind=idx)),
                                  ("compute_weights-segments", lambda: bw.compute_weights(pts, atcoords, atnums, pt_ind=idx))):
                    res.count(len(pts))
                    try:
                        got = np.asarray(fn(), dtype=float)
                    except Exception as exc:
                        res.violation(f"{rname}:raised:{type(exc).__name__}", f"{rname}, {shape} of {natoms} atoms: {type(exc).__name__}: {exc}", case)
                        continue
                    res.nontrivial(n=len(pts))
                    _compare(res, rname, f"{shape}-{natoms}", got, W[a], case, a, None)
    return res.as_dict()


def _dispatch(job):
    if job[0] == "ring":
        return _ring_case(job[1:])
    return _many_case(job[1:]) if job[0] == "many" else _config(job)


def _motions(res, bw, pts, atcoords, atnums, n, case, full):
    if True:
        if full:
            base = np.array([bw.generate_weights(pts, atcoords, atnums, select=a) for a in range(n)])
            for ir, rot in enumerate(rotations()):
                for shift in (np.zeros(3), np.array([3.3, -7.1, 0.9]), np.array([131072.0, -65536.0, 32768.0])):
                    if shift[0] > 1e5 and (ir % 6 or str(case.get("geometry", "")).endswith("-far")):
                        continue
                    res.count(n * len(pts))
                    p2, c2 = pts @ rot.T + shift, atcoords @ rot.T + shift
                    moved = np.array([bw.generate_weights(p2, c2, atnums, select=a) for a in range(n)])
                    # moving the system rounds every coordinate to the spacing of doubles at its new magnitude: a change
                    # of the positions by eps |x|, which the weights follow with slopes of order one per bohr
                    mag = max(float(np.max(np.abs(p2))), float(np.max(np.abs(pts))))
                    if _gt(np.max(np.abs(moved - base)), 1e-12 + 256 * np.finfo(float).eps * mag):
                        res.violation("not-invariant-under-rigid-motion", f"weights change by {np.max(np.abs(moved - base)):.3e} under "
                                      f"cube rotation #{ir} + translation {shift.tolist()}", case)
                        break
                    res.nontrivial()
            perms = list(itertools.permutations(range(n))) if n <= 4 else [tuple(np.roll(range(n), 1)), tuple([1, 0] + list(range(2, n)))]
            for perm in perms:
                res.count(n * len(pts))
                perm = np.array(perm)
                relabelled = np.array([bw.generate_weights(pts, atcoords[perm], atnums[perm], select=a) for a in range(n)])
                if _gt(np.max(np.abs(relabelled - base[perm])), 1e-13):
                    res.violation("not-invariant-under-relabelling", f"weights change under the atom permutation {perm.tolist()}", case)
                    break
                res.nontrivial()


def _compare(res, rname, key, got, want, case, atom, seg):
    TOL = 1e-10 if str(case.get("geometry", "")).endswith("-far") else globals()["TOL"]
    if got.shape != want.shape:
        res.violation(f"{rname}:shape", f"{rname}: shape {got.shape}, expected {want.shape}", case)
        return
    if not np.all(np.isfinite(got)):
        res.violation(f"{rname}:non-finite", f"{rname}: non-finite weights", case)
        return
    if got.min() < -TOL or got.max() > 1 + TOL:
        res.violation(f"{rname}:outside-[0,1]", f"{rname}: weights in [{got.min()}, {got.max()}]", case)
    err = np.abs(got - want)
    if _gt(err.max(), TOL):
        i = int(np.argmax(err))
        res.violation(f"{rname}:differs-from-definition:{key}",
                      f"{rname}{'' if atom is None else f'(atom {atom})'}{'' if seg is None else f' [{seg}]'}: point {i} has weight "
                      f"{got[i]!r}, Becke definition {want[i]!r} ({int((err > TOL).sum())} of {len(got)} points differ)", case)
    else:
        res.maximum("abs_err", float(err.max()))


# ------------------------------------------------------------------------------ E1: one weights object, many molecules
_INST_MOLS = {
    "A": (np.array([6, 1, 8, 86]), "generic"), "B": (np.array([86, 8, 1, 6]), "generic"), "C": (np.array([1, 1, 1, 1]), "collinear"),
    "D": (np.array([8, 36]), "close-pair"), "E": (np.array([2, 10, 85, 6, 1]), "generic"),
}


class InstanceWorld:
    """ONE BeckeWeights object reused for different molecules and routes (a hidden per-instance cache
    of radii / cell-function parameters must not leak from one molecule into the next).  Every result
    is compared with the plain-loop reference for that molecule."""

    def __init__(self, seed, order=3):
        from grid.becke import BeckeWeights

        self.seed, self.order = seed, order
        self.bw = BeckeWeights(order=order)
        self.table = bragg()
        self.violations = []
        self.hist = []

    def enabled(self):
        return [(m, r) for m in _INST_MOLS for r in ("call", "generate", "atom")]

    def apply(self, ev):
        mname, route = ev
        atnums, gname = _INST_MOLS[mname]
        coords = GEOMS[gname][: len(atnums)]
        pts = point_set(coords, self.seed)[:14]
        W = ref_weights(pts, coords, atnums, self.order, self.table)
        idx = np.linspace(0, len(pts), len(atnums) + 1).astype(int)
        owner = np.zeros(len(pts), dtype=int)
        for a in range(len(atnums)):
            owner[idx[a]:idx[a + 1]] = a
        with warnings.catch_warnings():
            warnings.simplefilter("ignore")
            if route == "call":
                got, want = self.bw(pts, coords, atnums, idx), W[owner, np.arange(len(pts))]
            elif route == "generate":
                got, want = self.bw.generate_weights(pts, coords, atnums, select=len(atnums) - 1), W[-1]
            else:
                got, want = self.bw.compute_atom_weight(pts, coords, atnums, 0), W[0]
        if _gt(np.max(np.abs(np.asarray(got) - want)), TOL):
            self.violations.append((f"instance-reuse:{route}:differs-from-definition",
                                    f"{route} on molecule {mname} after {self.hist} on the same BeckeWeights object deviates from the "
                                    f"definition by {np.max(np.abs(np.asarray(got) - want)):.2e}", {}))
        self.hist.append(tuple(ev))
        import hashlib

        return hashlib.sha1(np.round(np.asarray(got, dtype=float), 13).tobytes()).hexdigest()[:12]

    def canon(self):
        """The object's visible state (its attribute dictionary, radii table included) plus the set of
        molecules it has been used on: a leaking cache could only depend on those."""
        import hashlib

        attrs = sorted(vars(self.bw))
        rad = hashlib.sha1(repr(sorted((k, round(float(v), 12) if v == v else None) for k, v in self.bw._radii.items())).encode()).hexdigest()[:8]
        return (tuple(attrs), rad, tuple(sorted({m for m, _ in self.hist})))


def hirshfeld(ctx):
    import os

    import grid
    from grid.hirshfeld import HirshfeldWeights
    from scipy.interpolate import CubicSpline

    def rho(num, dist):
        path = os.path.join(os.path.dirname(grid.__file__), "data", "proatoms", f"a{num:03d}.npz")
        with np.load(path) as d:
            return CubicSpline(d["r"], d["dn"], bc_type="natural", extrapolate=True)(dist)

    hw = HirshfeldWeights()
    for nums, gname in (((1, 8), "generic"), ((6, 7, 8), "generic"), ((8, 1, 1, 6), "close-pair"), ((1,), "generic"),
                        ((6, 6, 1, 1, 7), "collinear")):
        nums = np.array(nums)
        n = len(nums)
        coords = GEOMS[gname][:n]
        pts = point_set(coords, ctx.seed)
        # near points, points far inside the tabulated range of the pro-atom densities (they end at 90 - 125 bohr) and
        # points beyond every table (added after seeded change C06-H was missed: no continuation beyond the table gives
        # 0/0 there); the reference continues the spline exactly as documented for scipy's CubicSpline
        pts = np.vstack([pts[np.linalg.norm(pts, axis=1) < 12], pts[np.linalg.norm(pts, axis=1) >= 12],
                         np.array([[70.0, -20.0, 5.0], [0.0, 0.0, 88.0], [150.0, 10.0, 0.0], [-300.0, 200.0, 100.0], [0.0, 1200.0, 0.0]])])
        dens = np.array([rho(int(z), np.linalg.norm(pts - c, axis=1)) for z, c in zip(nums, coords)])
        want_all = dens / dens.sum(axis=0)
        total = np.zeros(len(pts))
        case = {"route": "hirshfeld", "atnums": nums.tolist()}
        for a in range(n):
            ctx.count(len(pts), section="hirshfeld")
            idx = np.zeros(n + 1, dtype=int)
            idx[a + 1:] = len(pts)  # every point belongs to atom a
            got = np.asarray(hw(pts, coords, nums, idx), dtype=float)
            total += got
            ctx.nontrivial(("hirsh", tuple(nums), a), section="hirshfeld")
            if not np.all(np.isfinite(got)):
                ctx.violation("hirshfeld:non-finite-weights", f"atom {a} of {nums.tolist()}: non-finite weights at "
                              f"{pts[~np.isfinite(got)][0].tolist()} ({int(np.sum(~np.isfinite(got)))} points)", case)
            elif _gt(np.max(np.abs(got - want_all[a])), 1e-12):
                ctx.violation("hirshfeld:not-the-proatom-density-share", f"atom {a} of {nums.tolist()}: max deviation "
                              f"{np.max(np.abs(got - want_all[a])):.3e}", case)
        if _gt(np.max(np.abs(total - 1.0)), 1e-12):
            ctx.violation("hirshfeld:weights-do-not-sum-to-one", f"{nums.tolist()}: sum deviates by {np.max(np.abs(total - 1)):.3e}", case)
        # mixed segmentation
        ctx.count(len(pts), section="hirshfeld")
        idx = np.linspace(0, len(pts), n + 1).astype(int)
        owner = np.zeros(len(pts), dtype=int)
        for a in range(n):
            owner[idx[a]:idx[a + 1]] = a
        got = np.asarray(hw(pts, coords, nums, idx), dtype=float)
        if _gt(np.max(np.abs(got - want_all[owner, np.arange(len(pts))])), 1e-12):
            ctx.violation("hirshfeld:segmented-call-differs", f"{nums.tolist()}: segmented call differs from the density share", case)


def configs(thorough):
    out = []
    for n in range(1, 7):
        if n <= 3:
            assigns = list(itertools.product(ELEMENTS, repeat=n))
            if not thorough and n == 3:
                assigns = [a for a in assigns if len(set(a)) <= 2 or a[0] == 1]
        else:
            assigns = [tuple(v) for v in lattice.deviations([ELEMENTS] * n, 2)]
            if not thorough:
                assigns = [a for a in assigns if sum(z != 1 for z in a) <= 1] + [tuple([1, 86, 8, 36, 6, 85][:n])]
        for gi, gname in enumerate(GEOMS):
            for ai, a in enumerate(assigns):
                if gname != "generic" and ai % 4 and not thorough:
                    continue
                orders = (1, 2, 3, 4, 5) if (ai == 0 or thorough and ai % 7 == 0) else (3,)
                for order in orders:
                    full = (ai % 5 == 0) or len(set(a)) > 1 and ai % 3 == 0
                    out.append((gname, a, order, full))
    # far-from-origin placements of a few molecules (all routes)
    for a in ((1, 8), (6, 1, 8), (8, 1, 1, 6), (1, 86, 8, 36, 6)):
        out.append(("generic-far", a, 3, True))
    out.append(("close-pair-far", (8, 36, 1), 3, True))
    for a in ((1, 8), (8, 1, 6), (86, 1, 36, 8)):
        out.append(("generic-radii", a, 3, True))
    return out


def refill_histories(ctx):
    """One BeckeWeights instance; the point and coordinate arrays are refilled in place between calls."""
    from grid.becke import BeckeWeights

    rng = np.random.default_rng([ctx.seed, 61])
    bw = BeckeWeights(order=3)
    atn = np.array([8, 1, 6])
    A = (rng.normal(size=(12, 3)), np.array([[0.0, 0, 0], [0, 0, 1.8], [1.5, 0.2, 0]]))
    B = (rng.normal(size=(12, 3)) * 1.5, np.array([[0.1, 0, 0.3], [0, 1.1, 1.2], [-1.4, 0.2, 0]]))
    idx = np.array([0, 4, 8, 12])
    with warnings.catch_warnings():
        warnings.simplefilter("ignore")
        for nm, fn, fresh in (
                ("generate_weights", lambda p, c: bw.generate_weights(p, c, atn, select=1), lambda p, c: BeckeWeights(order=3).generate_weights(p, c, atn, select=1)),
                ("compute_atom_weight", lambda p, c: bw.compute_atom_weight(p, c, atn, 2), lambda p, c: BeckeWeights(order=3).compute_atom_weight(p, c, atn, 2)),
                ("compute_weights", lambda p, c: bw.compute_weights(p, c, atn, pt_ind=idx), lambda p, c: BeckeWeights(order=3).compute_weights(p, c, atn, pt_ind=idx)),
                ("__call__", lambda p, c: bw(p, c, atn, idx), lambda p, c: BeckeWeights(order=3)(p, c, atn, idx))):
            lattice.refill_check(ctx, nm, {"route": "refill"}, fn, A, B, fresh_fn=fresh, rtol=1e-13, atol=1e-15)


def dtype_forms(ctx):
    """Whole-number nuclear coordinates and points handed over in integer dtypes, atomic numbers as a list / int32 / float
    array, the index table as a list or int32 array: the weights are those of the float / int64 copies and of the
    reference (argument forms; after seeded change C11-I, where an integer-dtype argument was truncated in a work array)."""
    from grid.becke import BeckeWeights
    from grid.hirshfeld import HirshfeldWeights

    ci = np.array([[0, 0, 0], [0, 0, 2], [2, 1, 0], [-1, 2, 1]])
    pi = np.array(list(itertools.product((-2, 0, 1, 3), (-1, 1, 2), (-3, 1)))) 
    pi = pi[[not np.any(np.all(p == ci, axis=1)) for p in pi]]
    nums = np.array([8, 1, 6, 7])
    idx = np.linspace(0, len(pi), 5).astype(int)
    owner = np.zeros(len(pi), dtype=int)
    for a in range(4):
        owner[idx[a]:idx[a + 1]] = a
    table = bragg()
    with warnings.catch_warnings():
        warnings.simplefilter("ignore")
        for order in (1, 3):
            want = ref_weights(pi.astype(float), ci.astype(float), nums, order, table)[owner, np.arange(len(pi))]
            forms = {
                "float-baseline": (pi.astype(float), ci.astype(float), nums, idx),
                "int-coordinates": (pi.astype(float), ci.astype(np.int64), nums, idx),
                "int-points": (pi.astype(np.int64), ci.astype(float), nums, idx),
                "int-both": (pi.astype(np.int64), ci.astype(np.int64), nums, idx),
                "int32-both": (pi.astype(np.int32), ci.astype(np.int32), nums.astype(np.int32), idx.astype(np.int32)),
                "lists": (pi.astype(float), ci.astype(float), [int(z) for z in nums], [int(i) for i in idx]),
                "float-atnums": (pi.astype(float), ci.astype(float), nums.astype(float), idx),
            }
            for fname, (p, c, z, ix) in forms.items():
                for route in ("call", "compute_weights", "generate_weights", "compute_atom_weight"):
                    ctx.count(section="dtype-forms")
                    case = {"route": "dtype-forms", "form": fname, "call": route, "order": order}
                    keep = [np.array(x, copy=True) for x in (p, c)]
                    try:
                        bw = BeckeWeights(order=order)
                        if route == "call":
                            got = bw(p, c, z, ix)
                        elif route == "compute_weights":
                            got = bw.compute_weights(p, c, z, pt_ind=ix)
                        elif route == "generate_weights":
                            got = bw.generate_weights(p, c, z, pt_ind=ix)
                        else:
                            got = np.concatenate([bw.compute_atom_weight(p[ix[a]:ix[a + 1]], c, z, a) for a in range(4)])
                        got = np.asarray(got, dtype=float)
                    except Exception as exc:
                        if fname in ("lists", "float-atnums"):
                            ctx.inadm(section="dtype-forms")  # not among the documented forms (np.ndarray of ints): a clean refusal is allowed
                            continue
                        ctx.violation(f"dtype-forms:{fname}:raised:{type(exc).__name__}", f"BeckeWeights(order={order}).{route} with {fname}: "
                                      f"{type(exc).__name__}: {exc}", case)
                        continue
                    ctx.nontrivial(("dtype-forms", fname, route, order), section="dtype-forms")
                    if got.shape != want.shape or _gt(np.max(np.abs(got - want)), 1e-12):
                        ctx.violation(f"dtype-forms:{fname}:differs-from-reference", f"BeckeWeights(order={order}).{route} with {fname}: weights differ "
                                      f"from the reference by {np.max(np.abs(got - want)) if got.shape == want.shape else 'shape'}", case)
                    if not (np.array_equal(keep[0], p) and np.array_equal(keep[1], c)):
                        ctx.violation(f"dtype-forms:{fname}:arguments-modified", f"{route} with {fname} modified its arguments", case)
        # Hirshfeld with integer-dtype points and coordinates
        hw = HirshfeldWeights()
        base = np.asarray(hw(pi.astype(float), ci.astype(float), nums, idx), dtype=float)
        for fname, (p, c, z, ix) in (("int-both", (pi.astype(np.int64), ci.astype(np.int64), nums, idx)),
                                     ("int32-both", (pi.astype(np.int32), ci.astype(np.int32), nums, idx))):
            ctx.count(section="dtype-forms")
            case = {"route": "dtype-forms", "form": fname, "call": "hirshfeld"}
            try:
                got = np.asarray(HirshfeldWeights()(p, c, z, ix), dtype=float)
            except Exception as exc:
                ctx.violation(f"dtype-forms:hirshfeld:{fname}:raised:{type(exc).__name__}", f"HirshfeldWeights with {fname}: {type(exc).__name__}: {exc}", case)
                continue
            ctx.nontrivial(("dtype-forms", "hirshfeld", fname), section="dtype-forms")
            if got.shape != base.shape or _gt(np.max(np.abs(got - base)), 1e-13):
                ctx.violation(f"dtype-forms:hirshfeld:{fname}:differs-from-float-call", f"HirshfeldWeights with {fname} differs from the float call", case)


def run(ctx):
    jobs = [(g, a, o, ctx.seed, f) for g, a, o, f in configs(ctx.thorough)]
    for natoms in (9, 12, 15) + ((18,) if ctx.thorough else ()):
        for npts in (natoms // 2, natoms + 1, 2 * natoms + 3, natoms * natoms // 5 + 1, natoms * natoms // 3):
            for order in (3,) + ((1, 2) if ctx.thorough else ()):
                jobs.append(("many", natoms, npts, order, ctx.seed))
    for shape, sizes in (("ring", (12, 24, 40, 60)), ("cage", (20, 32, 60))):
        for natoms in sizes:
            for order in (3,) + ((1, 2) if ctx.thorough else ()):
                jobs.append(("ring", shape, natoms, order, ctx.seed))
    for res in lattice.pmap(_dispatch, jobs, ctx.workers, chunksize=4):
        if len(ctx.samples) > 8:
            res["samples"] = []
        ctx.merge(res)
    ctx.guarded("hirshfeld", hirshfeld, ctx)
    ctx.guarded("refill", refill_histories, ctx)
    ctx.guarded("dtype-forms", dtype_forms, ctx)
    from vf import explore

    st = explore.explore(ctx, "vf.props.c06:InstanceWorld", 3 if ctx.thorough else 2, params={"order": 3}, twice_every=9, fresh_every=0,
                         section="instance-reuse")
    ctx.cov["instance_reuse_exploration"] = {k: st[k] for k in ("states", "transitions", "depth_completed")}
    ctx.cov["configurations"] = len(jobs)
    ctx.cov["elements"] = list(ELEMENTS)
    ctx.exhaustive = True


def replay(ctx, case):
    if "history" in case:
        from vf import explore

        return explore.replay_history(ctx, case)
    if case.get("route") == "refill":
        return refill_histories(ctx)
    if case.get("route") == "dtype-forms":
        return dtype_forms(ctx)
    if case.get("route") == "hirshfeld":
        return hirshfeld(ctx)
    if case.get("route") == "many":
        return ctx.merge(_many_case((case["natoms"], case["npoints"], case["order"], ctx.seed)))
    if case.get("route") == "ring":
        return ctx.merge(_ring_case((case["shape"], case["natoms"], case["order"], ctx.seed)))
    ctx.merge(_config((case["geometry"], tuple(case["atnums"]), case["order"], ctx.seed, True)))
