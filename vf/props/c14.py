"""C14 -- multipole moments equal direct quadrature of their defining integrands.

Engine E2 (complete product): grid {1-D, 2-D, 3-D tensor-like point sets, an atomic grid} x moment
type {cartesian, radial, pure, pure-radial} x maximal order 0..L (L = 4 in 3-D, 6 for radial/1-D/2-D)
x number of centres 1..3 (one of them a grid point, so r = 0 occurs) x function values {unit basis
vectors e_i, two smooth arrays} (the map f -> moments is linear, so a basis decides the span) x
return_orders on/off x order given as int / np.int32 / np.int64.

Oracle: order lists from an independent Horton-order generator written here; entries by direct
sum_i w_i f_i basis(p_i - R) with monomials, |r-R|^n, and regular real solid harmonics from
vf/oracles/harm.py (float64 recursion on the unit vector, so r = 0 and poles are handled);
the dipole helper = nuclear - electronic first moments about the centre of mass (masses read from
the library's own isotopic mass table -- data, not code under test).
"""

from __future__ import annotations

import itertools
import warnings

import numpy as np

from vf import lattice
from vf.cli import WorkerResult
from vf.oracles import harm


def _gt(a, b):
    """a > b that is also True when a is NaN (a silent NaN must never pass a tolerance test)."""
    return ~(np.asarray(a) <= np.asarray(b))


LEVEL = "exploration"
RULE = (
    "complete product grid x type x max order x centres x function-value basis x call form; one "
    "evaluation = one moment entry; distinct non-trivial = distinct (grid, type, order row, centre, "
    "function) entry whose reference is not identically determined by a zero function value"
)
ASSUMPTIONS = ["float64 direct sums as reference, tolerance 1e-11 relative to sum |w f| |r-R|^power (an upper bound of sum |w f basis|)"]


# ------------------------------------------------------------------------------ reference orders
def ref_orders(order, kind, dim):
    if kind == "cartesian":
        if dim == 3:
            return [[mx, my, order - mx - my] for mx in range(order, -1, -1) for my in range(order - mx, -1, -1)]
        if dim == 2:
            return [[mx, order - mx] for mx in range(order, -1, -1)]
        return [[order]]
    if kind == "radial":
        return [[order]]
    if kind == "pure":
        out = [[order, 0]]
        for m in range(1, order + 1):
            out += [[order, m], [order, -m]]
        return out
    out = []  # pure-radial: (n, l, m) for l < n
    for l in range(order):
        out.append([order, l, 0])
        for m in range(1, l + 1):
            out += [[order, l, m], [order, l, -m]]
    return out


def solid(lmax, rel):
    """regular real solid harmonics R_lm(rel) = sqrt(4pi/(2l+1)) r^l Y_lm, rows in Horton order"""
    r = np.linalg.norm(rel, axis=1)
    unit = np.zeros_like(rel)
    nz = r > 0
    unit[nz] = rel[nz] / r[nz, None]
    unit[~nz] = np.array([0.0, 0.0, 1.0])  # direction irrelevant: r^l = 0 for l > 0, Y_00 constant
    y = harm.ylm_f64(lmax, unit)
    out = np.empty_like(y)
    for row, (l, m) in enumerate(harm.horton_lm(lmax)):
        out[row] = np.sqrt(4 * np.pi / (2 * l + 1)) * r**l * y[row]
    return out


def ref_moments(points, weights, f, centres, maxorder, kind):
    """(moments (L, C), orders (L, k), scales (L, C))"""
    dim = points.shape[1]
    olist = []
    rng = range(1, maxorder + 1) if kind == "pure-radial" else range(0, maxorder + 1)
    for o in rng:
        olist += ref_orders(o, kind, dim)
    orders = np.array(olist, dtype=int)
    mom = np.zeros((len(orders), len(centres)))
    sc = np.zeros_like(mom)
    for c, ctr in enumerate(centres):
        rel = points - ctr
        r = np.linalg.norm(rel, axis=1)
        if kind in ("pure", "pure-radial"):
            sol = solid(maxorder, rel)
        for k, o in enumerate(orders):
            if kind == "cartesian":
                basis = np.prod(rel ** np.array(o)[None, :], axis=1)
            elif kind == "radial":
                basis = r ** o[0]
            elif kind == "pure":
                basis = sol[harm.row_of(o[0], o[1])]
            else:
                basis = r ** o[0] * sol[harm.row_of(o[1], o[2])]
            mom[k, c] = np.sum(weights * f * basis)
            # natural scale: |basis| <= |r - R|^(total power) for monomials and (solid) harmonics
            power = int(np.sum(o)) if kind == "cartesian" else (o[0] if kind != "pure-radial" else o[0] + o[1])
            sc[k, c] = np.sum(np.abs(weights * f) * r**power)
    return mom, orders, sc


# ------------------------------------------------------------------------------ grids
def make_grid(name, seed):
    from grid.atomgrid import AtomGrid
    from grid.basegrid import Grid, OneDGrid

    rng = np.random.default_rng([seed, sum(map(ord, name))])
    if name == "1d":
        x = np.linspace(-1.3, 1.7, 9) + rng.uniform(-0.05, 0.05, 9)
        return Grid(x[:, None], rng.uniform(0.1, 0.5, 9))
    if name == "2d":
        x, y = np.meshgrid(np.linspace(-1, 1.2, 4), np.linspace(-0.7, 1.5, 5), indexing="ij")
        p = np.stack([x.ravel(), y.ravel()], axis=1) + rng.uniform(-0.03, 0.03, (20, 2))
        return Grid(p, rng.uniform(0.1, 0.5, 20))
    if name == "3d":
        x, y, z = np.meshgrid(np.linspace(-1, 1.2, 3), np.linspace(-0.7, 1.5, 4), np.linspace(-1.1, 0.8, 3), indexing="ij")
        p = np.stack([x.ravel(), y.ravel(), z.ravel()], axis=1) + rng.uniform(-0.03, 0.03, (36, 3))
        return Grid(p, rng.uniform(0.1, 0.5, 36) * rng.choice([1, 1, -1], 36))
    rg = OneDGrid(np.array([0.0, 0.4, 1.1]), np.array([0.2, 0.5, 0.7]), (0, np.inf))
    with warnings.catch_warnings():
        warnings.simplefilter("ignore")
        if name == "atom":
            return AtomGrid(rg, degrees=[3, 5, 3], center=np.array([0.2, -0.1, 0.3]))
        # every other class inherits ``moments``: it must use that class's own points and weights
        if name == "atom-rot":
            return AtomGrid(rg, degrees=[5, 3, 7], center=np.array([-0.4, 0.3, 0.1]), rotate=5)
        if name == "mol":
            from grid.becke import BeckeWeights
            from grid.molgrid import MolGrid

            ats = [AtomGrid(rg, degrees=[3, 5, 3], center=np.array(c)) for c in ([0.0, 0.0, -0.7], [0.1, 0.0, 0.8])]
            return MolGrid(np.array([8, 1]), ats, BeckeWeights(order=3), store=bool(seed % 2))
        if name == "uniform":
            from grid.cubic import UniformGrid

            return UniformGrid(np.array([-0.6, -0.5, -0.4]), np.array([[0.5, 0.1, 0.0], [0.0, 0.4, 0.0], [0.1, 0.0, 0.45]]), np.array([3, 4, 3]))
        if name == "tensor":
            from grid.cubic import Tensor1DGrids
            from grid.onedgrid import GaussLegendre, Trapezoidal

            return Tensor1DGrids(GaussLegendre(3), Trapezoidal(4), GaussLegendre(2))
        if name == "angular":
            from grid.angular import AngularGrid

            return AngularGrid(degree=5)
        if name == "local":
            return make_grid("3d", seed).get_localgrid(np.array([0.1, 0.4, -0.2]), 1.3)
        if name == "periodic":
            from grid.periodicgrid import PeriodicGrid

            p = rng.uniform(0, 1, (12, 3))
            return PeriodicGrid(p, rng.uniform(0.1, 0.5, 12), np.diag([1.0, 1.2, 0.9]))
        raise KeyError(name)


def _case(arg):
    gname, kind, maxorder, ncent, seed = arg
    res = WorkerResult(section=f"{gname}:{kind}")
    g = make_grid(gname, seed)
    pts = np.array(g.points, dtype=float)
    w = np.array(g.weights, dtype=float)
    dim = pts.shape[1]
    rng = np.random.default_rng([seed, 77])
    centres = np.vstack([pts[len(pts) // 3], rng.uniform(-0.5, 0.5, dim), np.full(dim, 1.9)])[:ncent]
    if gname in ("atom", "atom-rot") and ncent == 3:
        # the grid's own centre: the r = 0 shell coincides with it and the +-z nodes of every shell lie on its polar axis
        centres[2] = np.asarray(g.center, dtype=float)
    n = len(pts)
    funcs = {f"e{i}": np.eye(n)[i] for i in (0, len(pts) // 3, n - 1)}
    funcs["smooth"] = np.exp(-0.4 * np.sum(pts**2, axis=1))
    funcs["signed"] = np.sin(1.3 * pts[:, 0]) + 0.2
    case = {"grid": gname, "type": kind, "order": maxorder, "centres": ncent}
    for fname, f in funcs.items():
        for form in (("int", int), ("np.int64", np.int64), ("np.int32", np.int32)) if fname == "smooth" else (("int", int),):
            order_arg = form[1](maxorder)
            for ret in (True, False):
                c2 = dict(case, func=fname, form=form[0], return_orders=ret)
                snap = (pts.copy(), w.copy(), f.copy(), centres.copy())
                try:
                    with warnings.catch_warnings():
                        warnings.simplefilter("ignore")
                        with np.errstate(all="ignore"):
                            out = g.moments(order_arg, centres, f, type_mom=kind, return_orders=ret)
                except Exception as exc:
                    res.count()
                    res.violation(f"{kind}:dim{dim}:raised:{type(exc).__name__}",
                                  f"moments(order={maxorder!r} as {form[0]}, type={kind}) on the {gname} grid raised "
                                  f"{type(exc).__name__}: {exc}", c2)
                    continue
                got, orders = (out if ret else (out, None))
                got = np.asarray(got, dtype=float)
                ref, rord, sc = ref_moments(pts, w, f, centres, maxorder, kind)
                res.count(ref.size)
                if not all(np.array_equal(a, b) for a, b in zip(snap, (g.points, g.weights, f, centres))):
                    res.violation(f"{kind}:argument-modified", "moments modified the grid, the function values or the centres", c2)
                if got.shape != ref.shape:
                    res.violation(f"{kind}:dim{dim}:shape", f"moments shape {got.shape}, expected {ref.shape}", c2)
                    continue
                if ret:
                    o = np.asarray(orders)
                    o = o.reshape(len(rord), -1) if o.size == rord.size else o
                    if o.shape != rord.shape or not np.array_equal(o, rord):
                        res.violation(f"{kind}:dim{dim}:orders-not-horton-order",
                                      f"returned order list differs from the documented Horton order "
                                      f"(got {np.asarray(orders).tolist()[:6]}..., expected {rord.tolist()[:6]}...)", c2)
                tol = 1e-11 * sc + 1e-300
                bad = _gt(np.abs(got - ref), tol)
                res.nontrivial(n=int(np.count_nonzero(sc > 0)))
                if np.any(bad):
                    k, c = np.argwhere(bad)[0]
                    res.violation(f"{kind}:dim{dim}:entry-differs-from-direct-quadrature",
                                  f"{kind} moment row {int(k)} (order {rord[k].tolist()}) about centre {int(c)} on the {gname} grid: "
                                  f"{got[k, c]!r}, direct quadrature {ref[k, c]!r} ({int(bad.sum())} entries differ)",
                                  dict(c2, row=int(k)))
                else:
                    res.maximum(f"rel_err:{kind}", float(np.max(np.abs(got - ref) / (sc + 1e-300 + 1e-3 * np.max(sc)))))
    res.sample(case)
    return res.as_dict()


def dipole(ctx):
    from grid.utils import dipole_moment_of_molecule, isotopic_masses

    for gname in ("atom", "mol", "uniform"):
        _dipole_on(ctx, gname, isotopic_masses, dipole_moment_of_molecule)


def _dipole_on(ctx, gname, isotopic_masses, dipole_moment_of_molecule):
    g = make_grid(gname, ctx.seed)
    pts, w = np.array(g.points), np.array(g.weights)
    for coords, charges in ((np.array([[0.0, 0.0, 0.0], [0.0, 0.3, 1.2]]), np.array([1, 8])),
                            (np.array([[0.2, -0.1, 0.3]]), np.array([6])),
                            (np.array([[0.0, 0.0, -1.0], [0.9, 0.0, 0.4], [-0.8, 0.5, 0.3]]), np.array([8, 1, 1]))):
        pos = np.exp(-np.sum((pts - coords[0]) ** 2, axis=1)) + 0.3 * np.exp(-0.5 * np.sum((pts - coords[-1]) ** 2, axis=1))
        # a sign-changing function (a spin or difference density), an all-negative one and one with exact zeros: the helper
        # takes first moments of the values it is given (seeded change C14-N clipped them at zero)
        for dname, dens in (("positive", pos), ("sign-changing", pos * np.cos(1.3 * pts[:, 2] + 0.4)), ("negative", -pos),
                            ("with-zeros", np.where(pts[:, 0] > coords[0][0], pos, 0.0))):
            ctx.count(section="dipole")
            m = np.array([isotopic_masses[int(z)] for z in charges])
            com = (coords * m[:, None]).sum(axis=0) / m.sum()
            ref = (charges[:, None] * (coords - com)).sum(axis=0) - np.array([np.sum(w * dens * (pts[:, k] - com[k])) for k in range(3)])
            keep = dens.copy()
            got = np.asarray(dipole_moment_of_molecule(g, dens, coords, charges), dtype=float)
            ctx.nontrivial(("dipole", gname, len(charges), dname), section="dipole")
            sc = 1 + np.abs(ref) + np.array([np.sum(np.abs(w * dens * (pts[:, k] - com[k]))) for k in range(3)])
            if got.shape != (3,) or np.any(_gt(np.abs(got - ref), 1e-11 * sc)):
                ctx.violation("dipole:differs-from-nuclear-minus-electronic-first-moments",
                              f"dipole_moment_of_molecule ({dname} function values) on the {gname} grid = {got}, reference {ref}",
                              {"route": "dipole", "natoms": len(charges), "grid": gname, "values": dname})
            if not np.array_equal(keep, dens):
                ctx.violation("dipole:function-values-modified", f"dipole_moment_of_molecule modified the caller's function values ({dname})",
                              {"route": "dipole", "natoms": len(charges), "grid": gname, "values": dname})


def refill_histories(ctx):
    """One grid instance, one function-value array and one centre array refilled in place between calls."""
    rng = np.random.default_rng([ctx.seed, 141])
    for gname in ("3d", "atom", "uniform"):
        g = make_grid(gname, ctx.seed)
        n = g.size
        fa, fb = rng.normal(size=n), rng.normal(size=n)
        ca, cb = rng.uniform(-0.5, 0.5, (2, 3)), rng.uniform(-0.5, 0.5, (2, 3))
        for kind in ("cartesian", "radial", "pure", "pure-radial"):
            with warnings.catch_warnings():
                warnings.simplefilter("ignore")
                lattice.refill_check(ctx, f"moments[{kind}]:{gname}", {"route": "refill"},
                                     lambda f, c, kind=kind, g=g: g.moments(2, c, f, type_mom=kind),
                                     (fa, ca), (fb, cb), fresh_fn=lambda f, c, kind=kind, gname=gname: make_grid(gname, ctx.seed).moments(2, c, f, type_mom=kind),
                                     rtol=1e-12, atol=1e-13)


def homogeneity(ctx):
    """moments(s f) = s moments(f) for scale factors over 36 orders of magnitude (an absolute "negligible" threshold on
    f w breaks this; seeded change C14-J)."""
    for gname in ("3d", "atom", "1d"):
        g = make_grid(gname, ctx.seed)
        n, dim = g.size, np.asarray(g.points).shape[1]
        f = np.cos(np.arange(n) * 0.9) + 0.4
        centres = np.vstack([np.asarray(g.points)[n // 3], np.full(dim, 0.3)])
        for kind in ("cartesian", "radial", "pure", "pure-radial"):
            if kind in ("pure", "pure-radial") and dim != 3:
                continue
            with warnings.catch_warnings():
                warnings.simplefilter("ignore")
                base = np.asarray(g.moments(3, centres, f, type_mom=kind), dtype=float)
                for sfac in (1e-6, 1e-12, 1e-18, 1e-30, 1e6, 1e15):
                    ctx.count(section="homogeneity")
                    got = np.asarray(g.moments(3, centres, sfac * f, type_mom=kind), dtype=float) / sfac
                    ctx.nontrivial(("hom", gname, kind, sfac), section="homogeneity")
                    sc = np.max(np.abs(base)) + 1e-300
                    if got.shape != base.shape or _gt(np.max(np.abs(got - base)), 1e-12 * sc):
                        ctx.violation(f"homogeneity:{kind}:not-linear-in-the-function-values", f"{gname}: moments({sfac:g} f) / {sfac:g} differ from "
                                      f"moments(f) by {np.max(np.abs(got - base)) if got.shape == base.shape else 'shape'} (scale {sc:.2e})",
                                      {"route": "homogeneity", "grid": gname, "type": kind, "scale": sfac})


def dtype_forms(ctx):
    """Whole-number function values and centres handed over in integer dtypes give the answer of their float copies."""
    for gname in ("3d", "atom", "2d", "1d"):
        g = make_grid(gname, ctx.seed)
        n, dim = g.size, np.asarray(g.points).shape[1]
        fi = (np.arange(n) % 5 - 2).astype(np.int64)
        ci = np.array([[0, 0, 0], [1, -1, 0], [2, 1, -1], [-1, 0, 2]])[:, :dim]
        for kind in ("cartesian", "radial", "pure", "pure-radial"):
            if kind in ("pure", "pure-radial") and dim != 3:
                continue
            ctx.count(section="dtypes")
            case = {"route": "dtypes", "grid": gname, "type": kind}
            try:
                with warnings.catch_warnings():
                    warnings.simplefilter("ignore")
                    a = np.asarray(g.moments(2, ci, fi, type_mom=kind), dtype=float)
                    b = np.asarray(g.moments(2, ci.astype(float), fi.astype(float), type_mom=kind), dtype=float)
            except Exception as exc:
                ctx.violation(f"dtypes:{kind}:raised:{type(exc).__name__}", f"{gname}: moments with integer-dtype values / centres raised "
                              f"{type(exc).__name__}: {exc}", case)
                continue
            ref, _, sc = ref_moments(np.array(g.points, dtype=float), np.array(g.weights, dtype=float), fi.astype(float), ci.astype(float), 2, kind)
            ctx.nontrivial(("dtypes", gname, kind), section="dtypes")
            if a.shape != ref.shape or np.any(_gt(np.abs(a - ref), 1e-11 * (sc + 1e-3 * np.max(sc)))) or np.any(_gt(np.abs(a - b), 1e-12 * (sc + 1e-3 * np.max(sc)))):
                ctx.violation(f"dtypes:{kind}:integer-inputs-differ", f"{gname}: moments with integer-dtype function values and four integer "
                              f"centres differ from the direct quadrature / from the float call", case)


def integer_point_grids(ctx):
    """The grid's own point array in an integer dtype (a lattice of whole numbers) with centres that have a fractional part:
    the moments are those of the same grid with float points and of the direct quadrature (lesson 20)."""
    import itertools as it

    from grid.basegrid import Grid

    rng = np.random.default_rng([ctx.seed, 77])
    for dim, pts in ((1, np.arange(-3, 4)), (2, np.array(list(it.product(range(-2, 2), range(3))))), (3, np.array(list(it.product(range(-1, 2), repeat=3))))):
        w = rng.uniform(0.2, 1.0, len(pts))
        f = np.cos(0.3 * np.arange(len(pts))) + 1.5
        cen = np.array([[0.5, -0.25, 0.75], [1.0, 2.0, -1.0], [-1.5, 0.5, 0.25]])[:, :dim]
        P = pts.reshape(len(pts), -1)
        for dt in (np.int64, np.int32):
            for kind in ("cartesian", "radial", "pure", "pure-radial"):
                if kind in ("pure", "pure-radial") and dim != 3:
                    continue
                ctx.count(section="integer-points")
                case = {"route": "integer-points", "dim": dim, "dtype": np.dtype(dt).name, "type": kind}
                try:
                    with warnings.catch_warnings():
                        warnings.simplefilter("ignore")
                        a = np.asarray(Grid(P.astype(dt), w.copy()).moments(2, cen, f, type_mom=kind), dtype=float)
                        b = np.asarray(Grid(P.astype(float), w.copy()).moments(2, cen, f, type_mom=kind), dtype=float)
                except Exception as exc:
                    ctx.violation(f"integer-points:{kind}:raised:{type(exc).__name__}", f"moments on a grid with {np.dtype(dt).name} points (dim {dim}): {exc}", case)
                    continue
                ref, _, sc = ref_moments(P.astype(float), w, f, cen, 2, kind)
                ctx.nontrivial(("integer-points", dim, np.dtype(dt).name, kind), section="integer-points")
                tol = 1e-11 * (sc + 1e-3 * np.max(sc))
                if a.shape != ref.shape or np.any(_gt(np.abs(a - ref), tol)) or np.any(_gt(np.abs(a - b), tol)):
                    ctx.violation(f"integer-points:{kind}:differs-from-float-points", f"dim {dim}: {kind} moments on a grid whose points are {np.dtype(dt).name} "
                                  f"differ from the float grid / the direct quadrature", case)


def reassign_histories(ctx):
    """moments, reassign the grid's points (or weights) through the setter, moments again with the SAME centres and
    order: the second answer is that of a fresh grid holding the new arrays (added after seeded change C14-E: a
    per-grid table of solid harmonics that the points setter does not clear)."""
    rng = np.random.default_rng([ctx.seed, 142])
    for gname in ("3d", "2d", "uniform", "periodic", "local"):
        for what in ("points", "weights", "points+=", "weights*="):
            for kind in ("cartesian", "radial", "pure", "pure-radial"):
                if kind in ("pure", "pure-radial") and gname == "2d":
                    continue
                ctx.count(section="reassign")
                case = {"route": "reassign", "grid": gname, "what": what, "type": kind}
                g = make_grid(gname, ctx.seed)
                n, dim = g.size, np.asarray(g.points).shape[1]
                f = np.cos(np.arange(n) * 0.7) + 0.3
                centres = np.vstack([np.asarray(g.points)[n // 3], np.full(dim, 0.2)])
                p0, w0 = np.array(g.points, dtype=float), np.array(g.weights, dtype=float)
                try:
                    with warnings.catch_warnings():
                        warnings.simplefilter("ignore")
                        g.moments(2, centres, f, type_mom=kind)
                        if what == "points":
                            g.points = p0[::-1] * 0.8 + 0.1
                        elif what == "weights":
                            g.weights = w0[::-1] * 1.5
                        elif what == "points+=":
                            g.points += 0.25
                        else:
                            g.weights *= 3.0
                        pn, wn = np.array(g.points, dtype=float), np.array(g.weights, dtype=float)
                        got = np.asarray(g.moments(2, centres, f, type_mom=kind), dtype=float)
                except AttributeError:
                    ctx.inadm(section="reassign")      # the class offers no setter
                    continue
                expect_p = {"points": p0[::-1] * 0.8 + 0.1, "points+=": p0 + 0.25}.get(what, p0)
                expect_w = {"weights": w0[::-1] * 1.5, "weights*=": w0 * 3.0}.get(what, w0)
                if not (np.allclose(pn, expect_p, rtol=1e-15, atol=1e-15) and np.allclose(wn, expect_w, rtol=1e-15)):
                    ctx.violation("reassign:grid-does-not-hold-the-assigned-arrays", f"{gname}: after {what} the grid's arrays are not the "
                                  f"assigned ones", case)
                    continue
                ref, _, sc = ref_moments(pn, wn, f, centres, 2, kind)
                ctx.nontrivial(("reassign", gname, what, kind), section="reassign")
                if got.shape != ref.shape or np.any(_gt(np.abs(got - ref), 1e-11 * (sc + 1e-3 * np.max(sc)))):
                    ctx.violation(f"reassign:{kind}:answers-for-the-old-arrays", f"{gname}: moments after reassigning {what} differ from the "
                                  f"direct quadrature on the grid's current points and weights", case)


def run(ctx):
    jobs = []
    for gname in ("1d", "2d", "3d", "atom"):
        for kind in ("cartesian", "radial", "pure", "pure-radial"):
            if kind in ("pure", "pure-radial") and gname in ("1d", "2d"):
                continue  # solid harmonics are defined in three dimensions
            top = 5 if (gname in ("3d", "atom") and kind != "radial") else 6
            if ctx.thorough and kind in ("pure", "cartesian"):
                top += 2
            for maxorder in range(0 if kind != "pure-radial" else 1, top + 1):
                for ncent in (1, 2, 3):
                    jobs.append((gname, kind, maxorder, ncent, ctx.seed))
    for gname in ("atom-rot", "mol", "uniform", "tensor", "angular", "local", "periodic"):
        for kind in ("cartesian", "radial", "pure", "pure-radial"):
            for maxorder in ((1, 3) if kind != "pure-radial" else (2,)) + ((5,) if ctx.thorough or gname == "atom-rot" else ()):
                jobs.append((gname, kind, maxorder, 3, ctx.seed))
    for res in lattice.pmap(_case, jobs, ctx.workers, chunksize=2):
        if len(ctx.samples) > 8:
            res["samples"] = []
        ctx.merge(res)
    ctx.guarded("dipole", dipole, ctx)
    ctx.guarded("refill", refill_histories, ctx)
    ctx.guarded("reassign", reassign_histories, ctx)
    ctx.guarded("dtypes", dtype_forms, ctx)
    ctx.guarded("integer-points", integer_point_grids, ctx)
    ctx.guarded("homogeneity", homogeneity, ctx)
    ctx.cov["configurations"] = len(jobs)
    ctx.exhaustive = True


def replay(ctx, case):
    if case.get("route") == "homogeneity":
        return homogeneity(ctx)
    if case.get("route") == "integer-points":
        return integer_point_grids(ctx)
    if case.get("route") == "dtypes":
        return dtype_forms(ctx)
    if case.get("route") == "reassign":
        return reassign_histories(ctx)
    if case.get("route") == "refill":
        return refill_histories(ctx)
    if case.get("route") == "dipole":
        return dipole(ctx)
    ctx.merge(_case((case["grid"], case["type"], case["order"], case["centres"], ctx.seed)))
