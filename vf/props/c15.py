"""C15 -- ODE solvers return the solution of the stated problem under any transformation.

Engine E2 (complete product; quick = a deviation-bounded subset for the slow axes):
  order {1,2,3} x coefficient set {constants, smooth callables with non-vanishing leading term,
  mixed number/callable} x manufactured solution {exp(-x/2), sin x + x^2/5, 1/(1+x^2)} (right-hand
  side derived symbolically by sympy and evaluated numerically) x transform {none + 15 admissible
  maps: identity, inverse Becke / Knowles(k=2,3) / Handy(m=2) / HandyMod(m=3) / MultiExp /
  LinearFinite, Power, Exp and LinearInfinite with explicit b on a half-line interval; forward Becke,
  LinearFinite, Knowles(k=3), Handy(m=2), HandyMod(m=3), MultiExp on an interval inside (-1, 1)}
  x {IVP with method in DOP853, RK45, Radau, BDF, LSODA; BVP with value / derivative conditions
  at either end} x no_derivatives on/off.

Oracle: the closed-form y and its derivatives WITH RESPECT TO x; prescribed conditions satisfied;
the transformed solve gives the same function of x as the direct solve (both are compared with
the exact solution).  Tolerances: IVP 200 x (atol + rtol |y|), BVP 200 x tol (absolute, on O(1)
solutions).  Admissible = strictly monotone on the interval, interval inside the map's domain;
for the BVP additionally increasing (SciPy rejects a decreasing mesh with a clean ValueError:
counted as inadmissible).  The default initial guess of the BVP solver is random: numpy's global
generator is seeded with VERIF_SEED before those calls.
"""

from __future__ import annotations

import functools
import itertools
import warnings

import numpy as np

from vf import lattice
from vf.cli import WorkerResult


def _gt(a, b):
    """a > b that is also True when a is NaN (a silent NaN must never pass a tolerance test)."""
    return ~(np.asarray(a) <= np.asarray(b))


LEVEL = "exploration"
RULE = (
    "product order x coefficient set x manufactured solution x transform x solver/method/boundary "
    "form; one evaluation = one solve compared on 9 points (y and derivatives w.r.t. x); distinct "
    "non-trivial = distinct solve that converged (non-convergence with a clean ValueError and "
    "decreasing BVP meshes are inadmissible, counted)"
)
ASSUMPTIONS = [
    "scipy.integrate.solve_ivp / solve_bvp deliver their requested tolerances",
    "IVP tolerance 200*(atol + rtol*|y|) with rtol=1e-9, atol=1e-9; BVP 200*tol with tol=1e-7",
]

RTOL, ATOL, BTOL = 1e-9, 1e-9, 1e-7
IVP_METHODS = ("DOP853", "RK45", "Radau", "BDF", "LSODA")
SOLUTIONS = ("exp", "sinpoly", "lorentz")
COEFFS = ("const", "callable", "mixed", "zerolow", "stable")


SHIFTED = ("polyint", "zero1", "zero2", "zero12", "zero0")   # solutions written in t = x - x0 (whole-number initial data)
CASE_CPU_LIMIT = 120.0
HALF, PM1, LONG = (0.15, 2.0), (-0.6, 0.55), (0.15, 90.0)
# name -> (class name or None, constructor parameters, wrapped in InverseRTransform?, interval in the ORIGINAL variable,
#          thorough-only?)
SPEC = {
    "none": (None, {}, False, HALF, False),
    "identity": ("IdentityRTransform", {}, False, HALF, False),
    "inv-becke": ("BeckeRTransform", {"rmin": 0.0, "R": 1.3}, True, HALF, False),
    "inv-knowles-k2": ("KnowlesRTransform", {"rmin": 0.0, "R": 1.7, "k": 2}, True, HALF, False),
    "inv-knowles-k3": ("KnowlesRTransform", {"rmin": 0.0, "R": 1.7, "k": 3}, True, HALF, False),
    "inv-handy-m2": ("HandyRTransform", {"rmin": 0.0, "R": 1.1, "m": 2}, True, HALF, True),
    "inv-handymod-m3": ("HandyModRTransform", {"rmin": 0.0, "rmax": 12.0, "m": 3}, True, HALF, False),
    "inv-multiexp": ("MultiExpRTransform", {"rmin": 0.0, "R": 1.5}, True, HALF, False),
    "inv-linearfinite": ("LinearFiniteRTransform", {"rmin": 0.0, "rmax": 3.0}, True, HALF, False),
    "power-b5": ("PowerRTransform", {"rmin": 0.2, "rmax": 9.0, "b": 5.0}, False, HALF, False),
    "exp-b5": ("ExpRTransform", {"rmin": 0.2, "rmax": 9.0, "b": 5.0}, False, HALF, False),
    "lininf-b5": ("LinearInfiniteRTransform", {"rmin": 0.1, "rmax": 7.0, "b": 5.0}, False, HALF, False),
    # r = a x / (1 - b x): pole at 1/b = 50 far beyond the interval; the class refuses arrays of more than 1/b points (scalar start point: fixed in 95aa1f6)
    "hyperbolic": ("HyperbolicRTransform", {"a": 1.2, "b": 0.02}, False, HALF, False),
    "inv-hyperbolic": ("HyperbolicRTransform", {"a": 1.2, "b": 0.02}, True, HALF, False),
    "inv-power-b5": ("PowerRTransform", {"rmin": 0.1, "rmax": 9.0, "b": 5.0}, True, HALF, True),
    "inv-exp-b5": ("ExpRTransform", {"rmin": 0.1, "rmax": 9.0, "b": 5.0}, True, HALF, True),
    "inv-lininf-b5": ("LinearInfiniteRTransform", {"rmin": 0.1, "rmax": 7.0, "b": 5.0}, True, HALF, True),
    "inv-identity": ("IdentityRTransform", {}, True, HALF, True),
    # long intervals: the inverse maps compress them strongly (dx_new/dx down to 1e-5), so the transformed leading
    # coefficient a_K g'^K becomes tiny although a_K is of order one (seeded change C15-H "regularised" it below 1e-10)
    "none-long": (None, {}, False, LONG, False),
    "inv-becke-long": ("BeckeRTransform", {"rmin": 0.0, "R": 1.0}, True, LONG, False),
    "inv-linearfinite-long": ("LinearFiniteRTransform", {"rmin": 0.0, "rmax": 400.0}, True, LONG, False),
    "none-pm1": (None, {}, False, PM1, False),
    "becke": ("BeckeRTransform", {"rmin": 0.1, "R": 1.2}, False, PM1, False),
    "linearfinite": ("LinearFiniteRTransform", {"rmin": 0.5, "rmax": 4.0}, False, PM1, False),
    "knowles-k3": ("KnowlesRTransform", {"rmin": 0.0, "R": 1.4, "k": 3}, False, PM1, False),
    "handy-m2": ("HandyRTransform", {"rmin": 0.1, "R": 0.9, "m": 2}, False, PM1, True),
    "handymod-m3": ("HandyModRTransform", {"rmin": 0.0, "rmax": 11.0, "m": 3}, False, PM1, False),
    "multiexp": ("MultiExpRTransform", {"rmin": 0.0, "R": 1.3}, False, PM1, False),
    # (quick tier: m = 3 for Handy, the value m = 2 used by the repository's tests hides wrong terms: seed C15-D)
    # thorough tier: more integer and non-integer k / m (terms of the hand-derived derivative formulas that
    # vanish at k = m = 2 must show)
    "inv-knowles-k1": ("KnowlesRTransform", {"rmin": 0.0, "R": 1.7, "k": 1}, True, HALF, True),
    "inv-knowles-k2.5": ("KnowlesRTransform", {"rmin": 0.0, "R": 1.7, "k": 2.5}, True, HALF, True),
    "inv-knowles-k4": ("KnowlesRTransform", {"rmin": 0.0, "R": 2.2, "k": 4}, True, HALF, True),
    "inv-handy-m1": ("HandyRTransform", {"rmin": 0.0, "R": 1.1, "m": 1}, True, HALF, True),
    "inv-handy-m1.5": ("HandyRTransform", {"rmin": 0.0, "R": 1.1, "m": 1.5}, True, HALF, True),
    "inv-handy-m3": ("HandyRTransform", {"rmin": 0.0, "R": 1.1, "m": 3}, True, HALF, False),
    "inv-handymod-m1": ("HandyModRTransform", {"rmin": 0.0, "rmax": 6.0, "m": 1}, True, HALF, True),
    "inv-handymod-m2": ("HandyModRTransform", {"rmin": 0.0, "rmax": 9.0, "m": 2}, True, HALF, True),
    "inv-handymod-m4": ("HandyModRTransform", {"rmin": 0.0, "rmax": 25.0, "m": 4}, True, HALF, True),
    "knowles-k2.5": ("KnowlesRTransform", {"rmin": 0.1, "R": 1.4, "k": 2.5}, False, PM1, True),
    "knowles-k4": ("KnowlesRTransform", {"rmin": 0.0, "R": 1.4, "k": 4}, False, PM1, True),
    "handy-m1.5": ("HandyRTransform", {"rmin": 0.1, "R": 0.9, "m": 1.5}, False, PM1, True),
    "handy-m3": ("HandyRTransform", {"rmin": 0.1, "R": 0.9, "m": 3}, False, PM1, False),
    "handymod-m2": ("HandyModRTransform", {"rmin": 0.0, "rmax": 8.0, "m": 2}, False, PM1, True),
    "handymod-m4": ("HandyModRTransform", {"rmin": 0.1, "rmax": 24.0, "m": 4}, False, PM1, True),
    "becke-rmin0": ("BeckeRTransform", {"rmin": 0.0, "R": 5.0}, False, PM1, True),
}


def transforms():
    """name -> (constructor thunk, interval (x0, x1) in the ORIGINAL variable)."""
    import grid.rtransform as rt

    out = {}
    for name, (cls, p, inv, interval, _) in SPEC.items():
        def make(cls=cls, p=p, inv=inv):
            if cls is None:
                return None
            tf = getattr(rt, cls)(**p)
            return rt.InverseRTransform(tf) if inv else tf
        out[name] = (make, interval)
    return out


DECREASING = ("inv-multiexp", "multiexp")


@functools.lru_cache(maxsize=None)
def problem(order, cname, sname, x0=0.0):
    """(coeff list for the library, y-derivative callables [y, y', ...], f callable)."""
    import sympy as sp

    x = sp.symbols("x")
    t = x - sp.Float(x0)
    # "polyint": whole-number initial data y(x0)=1, y'(x0)=-1, y''(x0)=2 (passed to the solver as ints)
    # "zero*": the same with some of the initial values exactly zero -- y'(x0) = 0, y''(x0) = 0, both, or y(x0) = 0 (added after
    # seeded change C15-I: initial derivatives left unconverted when exactly one of them vanishes)
    y = {"exp": sp.exp(-x / 2), "sinpoly": sp.sin(x) + x**2 / 5, "lorentz": 1 / (1 + x**2),
         "polyint": 1 - t + t**2 + sp.sin(t) ** 4 / 3,
         "zero1": 1 + t**2 + sp.sin(t) ** 4 / 3, "zero2": 1 - t + t**3 / 2 + sp.sin(t) ** 4 / 3,
         "zero12": 1 + t**3 / 2 + sp.sin(t) ** 4 / 3, "zero0": t - t**2 + sp.sin(t) ** 4 / 3}[sname]
    if cname == "const":
        a = [sp.Float(1.0), sp.Float(-0.5), sp.Float(2.0), sp.Float(0.7)][: order + 1]
        a[order] = sp.Float([2.0, 1.5, 0.8][order - 1])
    elif cname == "callable":
        a = [x / 2 + 1, sp.cos(x) / 2, 1 / (2 + x**2), 1 + x**2 / 10][: order + 1]
        a[order] = [2 + sp.sin(x), 1 + x**2 / 10, 1 + sp.exp(-x) / 2][order - 1]
    elif cname == "stable":
        # (D + 1)^order: every homogeneous solution decays, so the problem stays well conditioned over a long interval
        a = [sp.Float(v) for v in ([1, 1], [1, 2, 1], [1, 3, 3, 1])[order - 1]]
    elif cname == "zerolow":
        # every lower-order coefficient exactly zero, leading coefficient not 1 (values that special-case code paths
        # like "skip vanishing rows" react to; added with seeded change C20-D)
        a = [sp.Float(0.0)] * order + [sp.Float([4.0, 2.0, 3.0][order - 1])]
    else:
        a = [sp.Float(0.3), x, sp.Float(-1.0), sp.Float(1.0)][: order + 1]
        a[order] = [1 + x**2 / 4, sp.Float(2.0), 2 + sp.cos(x)][order - 1]
    f = sum(ak * sp.diff(y, x, k) for k, ak in enumerate(a))
    fnum = sp.lambdify(x, f, "numpy")
    ders = [sp.lambdify(x, sp.diff(y, x, k), "numpy") for k in range(order + 1)]
    coeffs = []
    for ak in a:
        if ak.free_symbols:
            g = sp.lambdify(x, ak, "numpy")
            coeffs.append(lambda t, g=g: g(np.asarray(t, dtype=float)) * np.ones_like(np.asarray(t, dtype=float)))
        else:
            coeffs.append(float(ak))
    fx = lambda t: fnum(np.asarray(t, dtype=float)) * np.ones_like(np.asarray(t, dtype=float))
    dy = [lambda t, d=d: d(np.asarray(t, dtype=float)) * np.ones_like(np.asarray(t, dtype=float)) for d in ders]
    return coeffs, dy, fx


def _solve_case(arg):
    order, cname, sname, tname, solver, variant, seed = arg
    from grid.ode import solve_ode_bvp, solve_ode_ivp

    res = WorkerResult(section=f"{solver}:order{order}")
    case = {"order": order, "coeffs": cname, "solution": sname, "transform": tname, "solver": solver, "variant": variant}
    make, (x0, x1) = transforms()[tname]
    if sname not in SHIFTED:
        x0 = x0 + lattice.jitter(seed, "x0" + tname, 0.0, 0.03)
    coeffs, dy, fx = problem(order, cname, sname, x0 if sname in SHIFTED else 0.0)
    xs = np.linspace(x0, x1, 9)
    exact = np.array([d(xs) for d in dy[:order]])          # rows y, y', ... (w.r.t. x)
    tag = f"{solver}:order{order}"
    res.count()
    with warnings.catch_warnings():
        warnings.simplefilter("ignore")
        with np.errstate(all="ignore"):
            try:
                tf = make()
                if solver == "ivp":
                    method, no_der = variant[:2]
                    y0form = variant[2] if len(variant) > 2 else "float-list"
                    y0 = [float(d(np.array([x0]))[0]) for d in dy[:order]]
                    if y0form != "float-list":
                        assert all(abs(v - round(v)) < 1e-12 for v in y0)
                        y0 = [int(round(v)) for v in y0]
                        if y0form == "int-array":
                            y0 = np.array(y0)
                        elif y0form == "float-array":
                            y0 = np.array(y0, dtype=float)
                    y0_snapshot = repr(y0)
                    sol = solve_ode_ivp((x0, x1), fx, coeffs, y0, transform=tf, method=method, no_derivatives=no_der,
                                        rtol=RTOL, atol=ATOL)
                    tol = 200 * (ATOL + RTOL * np.abs(exact)) * (50 if method in ("RK45", "BDF", "Radau", "LSODA") else 1)
                    if repr(y0) != y0_snapshot:
                        res.violation("ivp:initial-data-modified", f"{case}: the caller's y0 was modified: {y0_snapshot} -> {y0!r}", case)
                else:
                    bc_kind, guess, no_der = variant
                    mesh = np.linspace(x0, x1, 25)
                    bd = _boundary(order, bc_kind, dy, x0, x1, tf, tname)
                    if guess == "zeros":
                        init = np.zeros((order, mesh.size))
                    else:
                        init = None
                        np.random.seed(seed)
                    sol = solve_ode_bvp(mesh, fx, coeffs, bd, transform=tf, tol=BTOL, max_nodes=20000, initial_guess_y=init,
                                        no_derivatives=no_der)
                    tol = 200 * BTOL * (1 + np.abs(exact))
                got = np.asarray(sol(xs), dtype=float)
                # the returned callable is a function of the point: the same values for the points in reversed order
                # and for repeated points
                odd = np.array([xs[6], xs[2], xs[2], xs[8], xs[0]])
                got_rev = np.asarray(sol(xs[::-1].copy()), dtype=float)
                got_odd = np.asarray(sol(odd), dtype=float)
                # ... and of the CONTENTS of the array it is given: one work array evaluated, refilled in place with other
                # points and evaluated again gives the values of those points (added after seeded change C15-J: the callable
                # remembered the per-point Jacobians together with a reference to the caller's array)
                xs_b = x0 + (xs - x0) * 0.73
                ref_b = np.asarray(sol(xs_b.copy()), dtype=float)
                buf = xs.copy()
                sol(buf)
                buf[:] = xs_b
                got_refill = np.asarray(sol(buf), dtype=float)
            except ValueError as exc:
                msg = str(exc)
                if solver == "bvp" and tname in DECREASING and ("strictly increasing" in msg or "increasing" in msg):
                    res.inadm()
                    return res.as_dict()
                if "hyperbolic" in tname and "b*(npoint-1) must be smaller than one" in msg:
                    # documented restriction of the class (b (N - 1) < 1 for an array of N points): a clean refusal
                    res.inadm()
                    return res.as_dict()
                if "didn't converge" in msg or "did not converge" in msg:
                    # every problem of the alphabet is smooth and well-posed and converges on the unchanged tree for every
                    # seed tried: a solve that gives up has not returned "the solution of the stated problem"
                    res.violation(f"{tag}:did-not-converge", f"{case}: {msg}", case)
                    return res.as_dict()
                res.violation(f"{tag}:raised:ValueError", f"{case}: {msg}", case)
                return res.as_dict()
            except Exception as exc:
                res.violation(f"{tag}:raised:{type(exc).__name__}", f"{case}: {exc}", case)
                return res.as_dict()
    res.nontrivial()
    with_tf = tf is not None
    g2 = got if got.ndim == 2 else got[None, :]
    r2 = got_rev if got_rev.ndim == 2 else got_rev[None, :]
    o2 = got_odd if got_odd.ndim == 2 else got_odd[None, :]
    scale_o = 1e-9 * (1.0 + np.max(np.abs(g2)))
    if r2.shape != g2.shape or _gt(np.max(np.abs(r2[:, ::-1] - g2)), scale_o) or o2.shape[1:] != (5,) \
            or _gt(np.max(np.abs(o2 - g2[:, [6, 2, 2, 8, 0]])), scale_o):
        res.violation(f"{tag}:callable-depends-on-point-order", f"{case}: the returned callable gives different values for the same points "
                      f"in reversed order or with repetitions", case)
    if got_refill.shape != ref_b.shape or _gt(np.max(np.abs(got_refill - ref_b)), 1e-9 * (1.0 + np.max(np.abs(ref_b)))):
        res.violation(f"{tag}:callable-stale-after-points-refilled-in-place", f"{case}: the returned callable evaluated on a work array, the array "
                      f"refilled in place with other points and evaluated again differs from a fresh array of those points by "
                      f"{np.max(np.abs(got_refill - ref_b)) if got_refill.shape == ref_b.shape else 'shape'}", case)
    if got.ndim == 1:
        got = got[None, :]
    rows_expected = 1 if (with_tf and no_der) else order
    if got.shape[0] < rows_expected or got.shape[1] != len(xs):
        res.violation(f"{tag}:shape", f"{case}: returned shape {got.shape}, expected ({rows_expected}, {len(xs)})", case)
        return res.as_dict()
    # derivatives with respect to x are assembled from the solver's derivatives with respect to r: the
    # solver's (absolute) error in d^k y / dr^k is multiplied by about |dr/dx|^k
    amp = np.ones(len(xs))
    if with_tf and rows_expected > 1:
        amp = np.array([max(1.0, abs(_dr_dx(tname, float(xv)))) for xv in xs])
    for k in range(rows_expected):
        err = np.abs(got[k] - exact[k])
        lim = (tol[k] if np.ndim(tol) == 2 else tol) * amp**k
        if np.any(_gt(err, lim)):
            i = int(np.argmax(err / lim))
            kind = "solution" if k == 0 else f"derivative-{k}"
            tkind = "transformed" if with_tf else "direct"
            res.violation(f"{tag}:{tkind}:{kind}-differs-from-exact",
                          f"{case}: d^{k}y/dx^{k} at x={xs[i]:.4f} is {got[k, i]!r}, exact {exact[k, i]!r} (error {err[i]:.3e}, "
                          f"allowed {np.atleast_1d(lim)[min(i, np.size(lim) - 1)]:.1e})", case)
            break
        res.maximum(f"err:{solver}:{'tf' if with_tf else 'direct'}:d{k}", float(np.max(err)))
    if variant == ("DOP853", False) or (solver == "bvp" and variant[0] == "values"):
        res.sample(case)
    return res.as_dict()


def _boundary(order, kind, dy, x0, x1, tf, tname):
    """boundary conditions [side, derivative order, value]; with a transform derivative values are
    with respect to the new coordinate r (documented), obtained from the exact d/dx values and the
    multiprecision derivative of the map (C03 oracle)."""
    def val(side, j):
        xv = x0 if side == 0 else x1
        if j == 0:
            return float(dy[0](np.array([xv]))[0])
        d1 = float(dy[1](np.array([xv]))[0])
        if tf is None:
            return d1
        return d1 / _dr_dx(tname, xv)   # dy/dr = (dy/dx) / (dr/dx)

    table = {
        1: {"values": [(0, 0)], "upper": [(1, 0)]},
        2: {"values": [(0, 0), (1, 0)], "lower-derivative": [(0, 0), (0, 1)], "upper": [(1, 0), (1, 1)]},
        3: {"values": [(0, 0), (1, 0), (0, 1)], "lower-derivative": [(0, 0), (0, 1), (1, 0)], "upper": [(1, 0), (1, 1), (0, 0)]},
    }
    return [[side, j, val(side, j)] for side, j in table[order][kind]]


def _dr_dx(tname, xv):
    """dr/dx of the named map at xv from the docstring formulas (vf/oracles/rtf.py), in mpmath."""
    import mpmath as mp

    from vf.oracles import rtf

    name, p, inverse = SPEC[tname][:3]
    mp.mp.dps = 30
    f = rtf.forward(name, p)
    if not inverse:
        return float(mp.diff(f, mp.mpf(xv)))
    # the solver's map is the inverse t(x) with f(t) = x: dt/dx = 1 / f'(t)
    from vf.props.c04 import _inverse_guess

    guess = _inverse_guess(name, p, xv)
    if guess is None:
        guess = {"LinearFiniteRTransform": 2 * xv / 3.0 - 1, "HandyModRTransform": 0.0}.get(name, 0.0)
    if name == "HandyModRTransform":
        tm, sz = 2.0 ** p["m"], p["rmax"] - p["rmin"]
        guess = 2 * ((xv - p["rmin"]) * (sz - tm + 1) / ((xv - p["rmin"]) * (sz - tm) + sz)) ** (1 / p["m"]) - 1
    # bracketed (real) root inside the map's domain: (-1, 1), or the half-line / index interval of the b-scaled maps
    lo, hi = mp.mpf("-0.999999999999"), mp.mpf("0.999999999999")
    if name == "HyperbolicRTransform":
        lo, hi = mp.mpf(0), mp.mpf(1) / mp.mpf(p["b"]) * (1 - mp.mpf("1e-12"))
    elif name in ("PowerRTransform", "ExpRTransform", "LinearInfiniteRTransform"):
        lo, hi = mp.mpf(0), mp.mpf(p["b"]) * (1 - mp.mpf("1e-12") * (name == "LinearInfiniteRTransform"))
    elif name == "IdentityRTransform":
        lo, hi = mp.mpf(0), mp.mpf(1000)
    t = mp.findroot(lambda u: f(u) - mp.mpf(xv), (lo, hi), solver="illinois", tol=mp.mpf("1e-25"), maxsteps=200)
    return float(1 / mp.diff(f, t))


def jobs_for(ctx):
    tnames = [t for t, v in SPEC.items() if ctx.thorough or not v[4]]
    out = []
    for order, cname, sname in itertools.product((1, 2, 3), COEFFS, SOLUTIONS):
        base = (cname, sname) == ("const", "exp")
        for tname in tnames:
            # the long interval only with the well-conditioned operator (and that operator only there and untransformed)
            if tname.endswith("-long") != (cname == "stable") and not (cname == "stable" and tname == "none"):
                continue
            if cname == "stable" and sname == "lorentz":
                continue
            # IVP
            for method in IVP_METHODS:
                if not ctx.thorough and method != "DOP853" and not (base or (tname in ("inv-becke", "becke", "none") and cname == "callable")):
                    continue
                for no_der in (False, True):
                    if no_der and not (method == "DOP853" and (ctx.thorough or base)):
                        continue
                    out.append((order, cname, sname, tname, "ivp", (method, no_der), ctx.seed))
            # whole-number initial data passed as Python ints / integer ndarray / float ndarray
            if sname == "exp" and cname in ("const", "callable") and (ctx.thorough or tname in ("none", "inv-becke", "inv-knowles-k3", "becke", "handy-m3")):
                for form in ("int-list", "int-array", "float-array"):
                    out.append((order, cname, "polyint", tname, "ivp", ("DOP853", False, form), ctx.seed))
                if order >= 2:
                    for zname in ("zero1", "zero2", "zero12", "zero0"):
                        if order == 2 and zname in ("zero2", "zero12"):
                            continue   # (y, y') = (1, -1) / (1, 0): the patterns of polyint / zero1
                        for form in ("float-list", "int-list"):
                            out.append((order, cname, zname, tname, "ivp", ("DOP853", False, form), ctx.seed))
            # BVP (on the long interval only first order with the condition at the lower end: anything else is ill-conditioned
            # for the operator itself over 90 units, the untransformed solve diverges as well)
            for bc in ("values", "lower-derivative", "upper"):
                if order == 1 and bc == "lower-derivative":
                    continue
                if tname.endswith("-long") and (order > 1 or bc != "values"):
                    continue
                for guess in ("zeros", "default"):
                    if guess == "default" and not (bc == "values" and (ctx.thorough or base)):
                        continue
                    for no_der in (True, False):
                        if not no_der and not (bc == "values" and guess == "zeros"):
                            continue
                        if not ctx.thorough and sname == "lorentz" and bc != "values":
                            continue
                        out.append((order, cname, sname, tname, "bvp", (bc, guess, no_der), ctx.seed))
    return out


def run(ctx):
    jobs = jobs_for(ctx)
    # one solve takes at most a few seconds of CPU time on the unchanged tree
    for res in lattice.pmap(_solve_case, jobs, ctx.workers, chunksize=4, limit=CASE_CPU_LIMIT):
        if len(ctx.samples) > 8:
            res["samples"] = []
        ctx.merge(res)
    ctx.cov["solves"] = len(jobs)
    ctx.cov["transforms"] = list(transforms())
    ctx.cov["tolerances"] = {"ivp_rtol": RTOL, "ivp_atol": ATOL, "bvp_tol": BTOL}
    ctx.exhaustive = True


def replay(ctx, case):
    v = case["variant"]
    ctx.merge(_solve_case((case["order"], case["coeffs"], case["solution"], case["transform"], case["solver"], tuple(v), ctx.seed)))
