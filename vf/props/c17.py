"""C17 -- closed-form Coulomb potentials of Gaussian densities are exact everywhere.

Engine E2: complete product  alpha (geometric lattice 1e-4..1e6) x r (0, denormal-ish, both
sides of the 1e-12 switch, ..., 1e8, inf) x {s, p} x {normalised, not}; the multi-centre routine
over all (K_s, K_p) in 0..3 x 0..2 with mixed-sign coefficients and evaluation points on
centres; every element 1..118 x 5 spellings through the parameter loader.

Oracle (independent derivation): for the density rho the docstring states,
    V(r) = (1/r) int_0^r 4 pi s^2 rho ds + int_r^inf 4 pi s rho ds,
evaluated with mpmath incomplete gamma functions (validated at start-up against mp.quad); total
charge from r V at large r; continuity across the small-r switch; unnormalised = documented
factor x normalised; JSON file read directly.
"""

from __future__ import annotations

import itertools
import json
import os

import mpmath as mp
import numpy as np

from vf import lattice
from vf.cli import HarnessError, WorkerResult


def _gt(a, b):
    """a > b that is also True when a is NaN (a silent NaN must never pass a tolerance test)."""
    return ~(np.asarray(a) <= np.asarray(b))


LEVEL = "exploration"
RULE = (
    "complete product alpha x r x type x normalisation (one evaluation each) + all (K_s,K_p) "
    "centre/coefficient configurations x evaluation points + every element x spelling; distinct "
    "non-trivial = distinct argument tuple with a finite reference value"
)
ASSUMPTIONS = [
    "mpmath incomplete gamma functions at 30 digits (cross-checked with mp.quad)",
    "relative tolerance 1e-11 counts as rounding",
]

RTOL = 1e-11
ALPHAS = [10.0 ** (k / 4.0) for k in range(-16, 25)]  # 41 values 1e-4 .. 1e6
RS = [0.0, 1e-300, 1e-20, 1e-14, 0.99e-12, 1e-12, 1.01e-12, 1e-11, 1e-9, 1e-6, 1e-4, 1e-2, 0.1, 0.5, 1.0,
      2.0, 5.0, 10.0, 30.0, 1e2, 1e3, 1e8, float("inf")]


def v_ref(kind, alpha, r, normalized=True):
    """Electrostatic potential of the documented density (mp number)."""
    a = mp.mpf(alpha)
    pw = 0 if kind == "s" else 2           # rho = N s^pw exp(-a s^2)
    if kind == "s":
        norm = (a / mp.pi) ** mp.mpf(1.5) if normalized else mp.mpf(1)
    else:
        norm = mp.mpf(2) / 3 * a ** mp.mpf(2.5) / mp.pi ** mp.mpf(1.5) if normalized else mp.mpf(1)

    def lower(p, x):   # int_0^x s^p e^{-a s^2} ds
        return mp.gammainc(mp.mpf(p + 1) / 2, 0, a * x * x) / (2 * a ** (mp.mpf(p + 1) / 2))

    def upper(p, x):   # int_x^inf s^p e^{-a s^2} ds
        return mp.gammainc(mp.mpf(p + 1) / 2, a * x * x, mp.inf) / (2 * a ** (mp.mpf(p + 1) / 2))

    if r == 0:
        return 4 * mp.pi * norm * upper(pw + 1, mp.mpf(0))
    if r == float("inf"):
        return mp.mpf(0)
    x = mp.mpf(r)
    return 4 * mp.pi * norm * (lower(pw + 2, x) / x + upper(pw + 1, x))


def total_charge(kind, alpha, normalized=True):
    a = mp.mpf(alpha)
    if normalized:
        return mp.mpf(1)
    return (mp.pi / a) ** mp.mpf(1.5) if kind == "s" else mp.mpf(3) / 2 * mp.pi ** mp.mpf(1.5) / a ** mp.mpf(2.5)


def selftest():
    mp.mp.dps = 30
    worst = mp.mpf(0)
    for kind, alpha, r in (("s", 0.7, 0.9), ("p", 2.3, 0.4), ("p", 0.05, 7.0), ("s", 40.0, 0.01)):
        a = mp.mpf(alpha)
        if kind == "s":
            rho = lambda s: (a / mp.pi) ** mp.mpf(1.5) * mp.exp(-a * s * s)
        else:
            rho = lambda s: mp.mpf(2) / 3 * a ** mp.mpf(2.5) / mp.pi ** mp.mpf(1.5) * s * s * mp.exp(-a * s * s)
        sc = 1 / mp.sqrt(a)
        inner = mp.quad(lambda s: 4 * mp.pi * s * s * rho(s), [0, r / 2, r])
        outer = mp.quad(lambda s: 4 * mp.pi * s * rho(s), [r, r + sc, r + 4 * sc, r + 12 * sc, mp.inf])
        ref = inner / r + outer
        worst = max(worst, abs(ref - v_ref(kind, alpha, r)) / abs(ref))
        # the Poisson equation for the radial density:  (1/r) d^2(r V)/dr^2 = -4 pi rho
        lap = mp.diff(lambda s: s * v_ref(kind, alpha, s), r, 2) / r
        worst = max(worst, abs(lap + 4 * mp.pi * rho(mp.mpf(r))) / abs(4 * mp.pi * rho(mp.mpf(r))))
    if worst > mp.mpf("1e-15"):
        raise HarnessError(f"Coulomb oracle self-test failed: {worst}")
    return float(worst)


def _single_shard(arg):
    kind, alphas, seed = arg
    from grid.coulomb import coulomb_gaussian_p, coulomb_gaussian_s

    mp.mp.dps = 30
    func = coulomb_gaussian_s if kind == "s" else coulomb_gaussian_p
    res = WorkerResult(section=f"single:{kind}")
    for alpha0 in alphas:
        alpha = alpha0 * (1 + lattice.jitter(seed, f"a{alpha0}", 0.0, 0.2))
        rs = [r if (r in (0.0, float("inf")) or r <= 1.01e-12) else r * (1 + lattice.jitter(seed, f"r{r}", 0.0, 0.3)) for r in RS]
        arr = np.array(rs)
        keep = arr.copy()
        for normalized in (True, False):
            case = {"route": "single", "kind": kind, "alpha": alpha0, "normalized": normalized}
            try:
                with np.errstate(all="ignore"):
                    got = np.asarray(func(arr, alpha, normalized=normalized), dtype=float)
            except Exception as exc:
                res.count()
                res.violation(f"coulomb_gaussian_{kind}:raised:{type(exc).__name__}",
                              f"coulomb_gaussian_{kind}(r, {alpha}) raised {type(exc).__name__}: {exc}", case)
                continue
            if not np.array_equal(arr, keep):
                res.violation(f"coulomb_gaussian_{kind}:argument-modified", "r was modified", case)
            if got.shape != arr.shape:
                res.violation(f"coulomb_gaussian_{kind}:shape", f"shape {got.shape} for {arr.shape}", case)
                continue
            fac = float(total_charge(kind, alpha, normalized))
            n_sig = 0
            bad = []
            for i, r in enumerate(rs):
                res.count()
                ref = float(v_ref(kind, alpha, r, normalized))
                res.nontrivial()
                err = abs(got[i] - ref)
                tol = RTOL * abs(ref) + 1e-300
                if not err <= tol:
                    # signature of the recorded p-type defect: + 2 sqrt(alpha/pi) exp(-alpha r^2) x factor
                    sig = fac * 2 * np.sqrt(alpha / np.pi) * (np.exp(-alpha * r * r) if np.isfinite(r) else 0.0)
                    if kind == "p" and abs((got[i] - ref) - sig) <= 1e-10 * (abs(sig) + abs(ref)):
                        n_sig += 1
                    else:
                        bad.append((r, float(got[i]), ref))
                else:
                    res.maximum(f"rel_err:{kind}", err / (abs(ref) + 1e-300))
            if n_sig:
                res.violation("coulomb_gaussian_p:tail-term:+4/3-instead-of--2/3",
                              f"coulomb_gaussian_p(alpha={alpha:.4g}, normalized={normalized}): at {n_sig} radii the value "
                              f"exceeds the potential of the documented density by exactly 2 sqrt(alpha/pi) exp(-alpha r^2)"
                              f" (x the normalisation factor)", case)
            if bad:
                r, g, ref = bad[0]
                side = "below-switch" if r < 1e-12 else ("at-infinity" if not np.isfinite(r) else "regular")
                res.violation(f"coulomb_gaussian_{kind}:not-the-potential-of-documented-density:{side}",
                              f"coulomb_gaussian_{kind}(r={r:.6g}, alpha={alpha:.6g}, normalized={normalized}) = {g!r}, "
                              f"potential of the documented density = {ref!r} ({len(bad)} radii)", dict(case, r=r))
            # large-r limit: r V -> total charge
            res.count()
            j = rs.index(1e8) if 1e8 in rs else len(rs) - 2
            if _gt(abs(rs[j] * got[j] - fac), 1e-9 * fac) and not n_sig:
                res.violation(f"coulomb_gaussian_{kind}:wrong-total-charge",
                              f"r V(r) at r={rs[j]:.3g} is {rs[j] * got[j]!r}, total charge of the documented density {fac!r}", case)
            # continuity across the switch (true variation there is ~ alpha r^2 ~ 1e-24 relative)
            res.count()
            a, b = got[rs.index(0.99e-12)], got[rs.index(1.01e-12)]
            if _gt(abs(a - b), 1e-9 * abs(b)):
                res.violation(f"coulomb_gaussian_{kind}:discontinuous-across-switch",
                              f"V(0.99e-12)={a!r} vs V(1.01e-12)={b!r} for alpha={alpha:.4g}", case)
            # scalar input gives the same value
            res.count()
            s = np.asarray(func(0.5, alpha, normalized=normalized), dtype=float).reshape(-1)
            s2 = np.asarray(func(np.array([0.5]), alpha, normalized=normalized), dtype=float).reshape(-1)
            if s.shape != (1,) or s[0] != s2[0]:
                res.violation(f"coulomb_gaussian_{kind}:scalar-form", "scalar r gives a different value than a length-1 array", case)
        # invalid arguments are rejected
        res.count()
        for badarg in ((np.array([1.0]), -alpha), (np.array([-1.0, 1.0]), alpha), (np.array([1.0]), 0.0)):
            try:
                func(badarg[0], badarg[1])
                res.violation(f"coulomb_gaussian_{kind}:invalid-argument-accepted", f"accepted r={badarg[0]}, alpha={badarg[1]}",
                              {"route": "single", "kind": kind, "alpha": alpha0, "normalized": True})
            except ValueError:
                pass
    res.sample({"route": "single", "kind": kind, "alpha": alphas[0], "radii": len(RS)})
    return res.as_dict()


CENTRES = np.array([[0.0, 0.0, 0.0], [0.0, 0.0, 1.4], [1.1, -0.7, 0.3]])
COEFFS = np.array([1.0, -0.4, 2.5])
ALPH = np.array([0.8, 3.0, 0.05])
PC = np.array([[0.0, 0.3, 0.0], [1.1, -0.7, 0.3]])
PCO = np.array([-1.5, 0.6])
PAL = np.array([1.2, 0.3])
POINTS = np.array([[0.0, 0.0, 0.0], [0.0, 0.0, 1.4], [1.1, -0.7, 0.3], [0.0, 0.3, 0.0], [0.3, 0.2, -0.1],
                   [5.0, 5.0, 5.0], [0.0, 0.0, 1.4 + 5e-13], [100.0, 0.0, 0.0]])


FAR = np.array([1234.5, -4567.8, 7891.2])
TIGHT = np.array([1e4, 1e6, 3.0])
NEAR = np.array([[1e-2, 0.0, 0.0], [0.0, -1e-3, 1e-3], [3e-3, 2e-3, -1e-3]])


def multi_centre(ctx):
    _multi(ctx, POINTS, CENTRES, ALPH, PC, PAL, "near-origin")
    # the same molecule far from the coordinate origin, tight exponents, points very close to the
    # centres (added after seeded change C17-B was missed): distances must not lose digits
    pts = np.vstack([POINTS + FAR, CENTRES + FAR + NEAR, PC + FAR + NEAR[:2]])
    _multi(ctx, pts, CENTRES + FAR, TIGHT, PC + FAR, np.array([1e5, 2e3]), "far-from-origin")
    # distinct centres that almost coincide (a finite-difference pair, a polarisation function 1e-6 bohr off its s
    # centre), 10 bohr from the origin so that they agree to 1e-6 relative: each function must still be evaluated at
    # its own centre (added after seeded change C17-D was missed)
    base = np.array([10.0, -7.0, 3.0])
    near_s = base + np.array([[0.0, 0.0, 0.0], [1e-5, 0.0, 0.0], [1e-5, 1e-7, 0.0]])
    near_p = base + np.array([[1e-5, 1e-7, 1e-6], [1e-5, 1e-7, 3e-6]])
    pts = np.vstack([base + np.array([[0.3, 0.1, -0.2], [1e-3, 0.0, 0.0], [0.0, 2e-5, 0.0], [5e-6, 0.0, 0.0], [-1.5, 2.0, 0.5]]), near_s[:2]])
    _multi(ctx, pts, near_s, np.array([3e9, 3e9, 1e10]), near_p, np.array([2e10, 5e9]), "near-coincident-centres")


def _dist(points, centre):
    """|p - c| correctly rounded: exact differences of the doubles and a 40-digit square root (the reference must not
    share a float64 distance formula with the routine under test)."""
    mp.mp.dps = 40
    return np.array([float(mp.sqrt(mp.fsum((mp.mpf(float(a)) - mp.mpf(float(b))) ** 2 for a, b in zip(p, centre)))) for p in points])


def _multi(ctx, POINTS, CENTRES, ALPH, PC, PAL, label):
    from grid.coulomb import coulomb_gaussian_p, coulomb_gaussian_s, coulomb_potential

    for ks, kp, normalized in itertools.product(range(4), range(3), (True, False)):
        ctx.count(section="multi")
        case = {"route": "multi", "ks": ks, "kp": kp, "normalized": normalized, "placement": label}
        cs, co, al = CENTRES[:ks].reshape(ks, 3), COEFFS[:ks], ALPH[:ks]
        kw = {}
        if kp:
            kw = dict(centers_p=PC[:kp], coeffs_p=PCO[:kp], alphas_p=PAL[:kp])
        snap = [a.copy() for a in (POINTS, cs, co, al)]
        try:
            got = coulomb_potential(POINTS, cs, co, al, normalized=normalized, **kw)
        except Exception as exc:
            ctx.violation(f"coulomb_potential:raised:{type(exc).__name__}",
                          f"coulomb_potential with K_s={ks}, K_p={kp} raised {type(exc).__name__}: {exc}", case)
            continue
        ref = np.zeros(len(POINTS))
        for c, a, ctr in zip(co, al, cs):
            ref += c * coulomb_gaussian_s(_dist(POINTS, ctr), a, normalized=normalized)
        for c, a, ctr in zip(PCO[:kp], PAL[:kp], PC[:kp]):
            ref += c * coulomb_gaussian_p(_dist(POINTS, ctr), a, normalized=normalized)
        ctx.nontrivial(("multi", label, ks, kp, normalized), section="multi")
        scale = np.abs(ref) + 1e-12 * (np.sum(np.abs(co)) + np.sum(np.abs(PCO[:kp])) + 1)
        if got.shape != (len(POINTS),) or np.any(_gt(np.abs(got - ref), 1e-13 * scale * 10)):
            ctx.violation(f"coulomb_potential:not-the-weighted-sum:{label}",
                          f"coulomb_potential(K_s={ks}, K_p={kp}, normalized={normalized}, {label}) differs from the "
                          f"coefficient-weighted sum of the single-centre functions: {got} vs {ref}", case)
        if not all(np.array_equal(a, b) for a, b in zip(snap, (POINTS, cs, co, al))):
            ctx.violation("coulomb_potential:argument-modified", "an input array was modified", case)
    if label != "near-origin":
        return
    # partially given p arguments are rejected
    for kwargs in (dict(centers_p=PC), dict(coeffs_p=PCO), dict(alphas_p=PAL), dict(centers_p=PC, coeffs_p=PCO),
                   dict(coeffs_p=PCO, alphas_p=PAL)):
        ctx.count(section="multi")
        try:
            coulomb_potential(POINTS, CENTRES, COEFFS, ALPH, **kwargs)
            ctx.violation("coulomb_potential:partial-p-arguments-accepted", f"accepted {sorted(kwargs)}",
                          {"route": "multi-partial", "given": sorted(kwargs)})
        except ValueError:
            ctx.nontrivial(("partial", tuple(sorted(kwargs))), section="multi")


def exponent_forms(ctx):
    """The exponent handed over as a Python int, a NumPy integer or an extreme float: same function as for the float of
    equal value, and the unnormalised variant is the normalised one times the documented factor (pi/alpha)^(3/2) for s,
    (3/2) pi^(3/2) / alpha^(5/2) for p -- compared as a RATIO, so the recorded p-type tail finding does not enter.
    (Added after seeded change C17-G: alpha**5 in the integer's own dtype / beyond the float range.)"""
    from grid.coulomb import coulomb_gaussian_p, coulomb_gaussian_s

    r = np.array([0.0, 0.3, 1.1, 4.0])
    forms = [3, np.int64(7), np.int32(100), np.int64(10000), np.int64(13739), np.float32(2.5), 1e-70, 1e-30, 1e40, 1e65]
    for kind, fn, fac in (("s", coulomb_gaussian_s, lambda a: (mp.pi / a) ** mp.mpf("1.5")),
                          ("p", coulomb_gaussian_p, lambda a: mp.mpf("1.5") * mp.pi ** mp.mpf("1.5") / a ** mp.mpf("2.5"))):
        for alpha in forms:
            ctx.count(section="exponent-forms")
            case = {"route": "exponent-forms", "kind": kind, "alpha": repr(alpha)}
            af = float(alpha)
            rr = r / np.sqrt(af) if af > 1e30 or af < 1e-20 else r       # keep sqrt(alpha) r of order one
            try:
                with np.errstate(all="ignore"):
                    n1 = np.asarray(fn(rr, alpha, normalized=True), dtype=float)
                    n0 = np.asarray(fn(rr, af, normalized=True), dtype=float)
                    u1 = np.asarray(fn(rr, alpha, normalized=False), dtype=float)
            except Exception as exc:
                ctx.violation(f"exponent-forms:{kind}:raised:{type(exc).__name__}", f"coulomb_gaussian_{kind}(r, alpha={alpha!r}) raised "
                              f"{type(exc).__name__}: {exc}", case)
                continue
            ctx.nontrivial(("expform", kind, repr(alpha)), section="exponent-forms")
            want = float(fac(mp.mpf(af)))
            if not np.allclose(n1, n0, rtol=1e-6 if isinstance(alpha, np.float32) else 1e-13, atol=0, equal_nan=False):
                ctx.violation(f"exponent-forms:{kind}:differs-from-float-exponent", f"coulomb_gaussian_{kind} with alpha={alpha!r} differs from "
                              f"alpha={af!r}: {n1} vs {n0}", case)
            ok = np.isfinite(want) and want > 0
            if ok and not np.allclose(u1, n1 * want, rtol=1e-6 if isinstance(alpha, np.float32) else 1e-12, atol=0, equal_nan=False):
                ctx.violation(f"exponent-forms:{kind}:unnormalised-factor", f"coulomb_gaussian_{kind}(alpha={alpha!r}, normalized=False) is not the "
                              f"normalised value times {want!r}: {u1} vs {n1 * want}", case)


def dtype_forms(ctx):
    """Whole-number points, centres, coefficients and exponents handed over in integer dtypes or as lists give the potential
    of their float copies (argument forms; after seeded changes C17-G and C11-I, where an integer dtype leaked into the
    arithmetic), and integer radii give the single-centre functions of the float radii."""
    from grid.coulomb import coulomb_gaussian_p, coulomb_gaussian_s, coulomb_potential

    P = np.array([[0, 0, 0], [1, 0, 0], [2, -1, 3], [0, 0, 5], [-4, 2, 1], [1, 1, 1]])
    CS, CO, AL = np.array([[0, 0, 0], [1, 1, 0], [0, -2, 1]]), np.array([2, -1, 3]), np.array([1, 3, 2])
    CP, PCO_, PAL_ = np.array([[0, 0, 1], [2, 0, 0]]), np.array([1, -2]), np.array([2, 5])
    f = lambda a: np.asarray(a, dtype=float)
    for normalized in (True, False):
        want = coulomb_potential(f(P), f(CS), f(CO), f(AL), centers_p=f(CP), coeffs_p=f(PCO_), alphas_p=f(PAL_), normalized=normalized)
        ref = np.zeros(len(P))
        for c, a, ctr in zip(CO, AL, CS):
            ref += c * coulomb_gaussian_s(_dist(f(P), f(ctr)), float(a), normalized=normalized)
        for c, a, ctr in zip(PCO_, PAL_, CP):
            ref += c * coulomb_gaussian_p(_dist(f(P), f(ctr)), float(a), normalized=normalized)
        for fname, conv in (("int64", lambda a: np.asarray(a, dtype=np.int64)), ("int32", lambda a: np.asarray(a, dtype=np.int32)),
                            ("lists", lambda a: np.asarray(a).tolist()), ("float-baseline", f)):
            ctx.count(section="dtype-forms")
            case = {"route": "dtype-forms", "form": fname, "normalized": normalized}
            try:
                with np.errstate(all="ignore"):
                    got = np.asarray(coulomb_potential(conv(P), conv(CS), conv(CO), conv(AL), centers_p=conv(CP), coeffs_p=conv(PCO_),
                                                       alphas_p=conv(PAL_), normalized=normalized), dtype=float)
            except Exception as exc:
                if fname == "lists":
                    ctx.inadm(section="dtype-forms")
                    continue
                ctx.violation(f"dtype-forms:{fname}:raised:{type(exc).__name__}", f"coulomb_potential with {fname} arguments: {type(exc).__name__}: {exc}", case)
                continue
            ctx.nontrivial(("dtype-forms", fname, normalized), section="dtype-forms")
            if got.shape != want.shape or np.any(_gt(np.abs(got - want), 1e-13 * (np.abs(want) + 1e-3))) or np.any(_gt(np.abs(got - ref), 1e-12 * (np.abs(ref) + 1e-3))):
                ctx.violation(f"dtype-forms:{fname}:differs-from-float-arguments", f"coulomb_potential (normalized={normalized}) with {fname} arguments: "
                              f"{got} vs {want} for the float copies", case)
        ri = np.array([0, 1, 2, 5, 30])
        for kind, fn in (("s", coulomb_gaussian_s), ("p", coulomb_gaussian_p)):
            for alpha in (2, 0.7):
                for fname, conv in (("int64", lambda a: a.astype(np.int64)), ("int32", lambda a: a.astype(np.int32))):
                    ctx.count(section="dtype-forms")
                    case = {"route": "dtype-forms", "form": fname, "kind": kind, "alpha": alpha, "normalized": normalized}
                    try:
                        with np.errstate(all="ignore"):
                            a = np.asarray(fn(conv(ri), alpha, normalized=normalized), dtype=float)
                            b = np.asarray(fn(ri.astype(float), float(alpha), normalized=normalized), dtype=float)
                    except Exception as exc:
                        ctx.violation(f"dtype-forms:radii:{fname}:raised:{type(exc).__name__}", f"coulomb_gaussian_{kind}(integer radii, {alpha}): {exc}", case)
                        continue
                    ctx.nontrivial(("dtype-forms", "radii", kind, alpha, fname, normalized), section="dtype-forms")
                    if a.shape != b.shape or not np.allclose(a, b, rtol=1e-13, atol=0):
                        ctx.violation(f"dtype-forms:radii:{kind}:differs-from-float-radii", f"coulomb_gaussian_{kind} with {fname} radii {ri.tolist()}, alpha={alpha}: {a} vs {b}", case)


def homogeneity(ctx):
    """The multi-centre potential is linear in its coefficients: 1e-20 c and 1e15 c."""
    from grid.coulomb import coulomb_potential

    for normalized in (True, False):
        base = coulomb_potential(POINTS, CENTRES, COEFFS, ALPH, centers_p=PC, coeffs_p=PCO, alphas_p=PAL, normalized=normalized)
        for sfac in (1e-20, 1e15, -1.0):
            ctx.count(section="multi")
            got = coulomb_potential(POINTS, CENTRES, sfac * COEFFS, ALPH, centers_p=PC, coeffs_p=sfac * PCO, alphas_p=PAL, normalized=normalized) / sfac
            ctx.nontrivial(("hom", normalized, sfac), section="multi")
            if not np.allclose(got, base, rtol=1e-12, atol=0):
                ctx.violation("coulomb_potential:not-linear-in-the-coefficients", f"coulomb_potential with coefficients scaled by {sfac:g} is not "
                              f"{sfac:g} times the potential (normalized={normalized})", {"route": "homogeneity"})


def refill_histories(ctx):
    from grid.coulomb import coulomb_gaussian_p, coulomb_gaussian_s, coulomb_potential

    rng = np.random.default_rng([ctx.seed, 171])
    ra, rb = rng.uniform(0.01, 5, 9), rng.uniform(0.01, 5, 9)
    case = {"route": "refill"}
    for nm, fn in (("coulomb_gaussian_s", lambda r: coulomb_gaussian_s(r, 0.8)), ("coulomb_gaussian_p", lambda r: coulomb_gaussian_p(r, 1.7)),
                   ("coulomb_gaussian_s[unnormalised]", lambda r: coulomb_gaussian_s(r, 0.8, normalized=False))):
        lattice.refill_check(ctx, nm, case, fn, (ra,), (rb,))
    A = (rng.normal(size=(6, 3)), rng.normal(size=(2, 3)), rng.uniform(0.5, 2, 2), rng.uniform(0.5, 3, 2))
    B = (rng.normal(size=(6, 3)), rng.normal(size=(2, 3)), rng.uniform(0.5, 2, 2), rng.uniform(0.5, 3, 2))
    lattice.refill_check(ctx, "coulomb_potential", case, lambda p, c, co, al: coulomb_potential(p, c, co, al), A, B)
    lattice.refill_check(ctx, "coulomb_potential[p]", case,
                         lambda p, c, co, al: coulomb_potential(p, c, co, al, centers_p=c, coeffs_p=co, alphas_p=al), A, B)


def loader(ctx):
    import grid
    import grid.coulomb as cou
    from grid.utils import num2sym

    path = os.path.join(os.path.dirname(grid.__file__), "data", "atomic_gauss_params.json")
    with open(path, encoding="utf-8") as fh:
        table = json.load(fh)
    cou._ATOMIC_GAUSS_PARAMS_CACHE = None
    shipped = 0
    for z in range(1, 119):
        sym = num2sym[z]
        for form, arg in (("int", z), ("np.int64", np.int64(z)), ("symbol", sym), ("lower", sym.lower()),
                          ("padded-upper", f"  {sym.upper()} ")):
            ctx.count(section="loader")
            case = {"route": "loader", "z": z, "form": form}
            try:
                c, a = cou.load_atomic_gaussian_params(arg)
            except ValueError:
                if sym in table:
                    ctx.violation(f"loader:{form}:shipped-element-rejected", f"{arg!r}: shipped parameters not loadable", case)
                continue
            except Exception as exc:
                ctx.violation(f"loader:{form}:raised:{type(exc).__name__}", f"{arg!r}: {exc}", case)
                continue
            if sym not in table:
                ctx.violation(f"loader:{form}:unshipped-element-loaded", f"{arg!r} loaded although the file has no entry", case)
                continue
            shipped += form == "int"
            ctx.nontrivial(("loader", z, form), section="loader")
            rc = np.asarray(table[sym]["coeffs_s"], dtype=float)
            ra = np.asarray(table[sym]["alphas_s"], dtype=float)
            if not (np.array_equal(c, rc) and np.array_equal(a, ra)):
                ctx.violation(f"loader:{form}:differs-from-json", f"{arg!r}: arrays differ from the JSON file", case)
            if not (c.ndim == 1 and c.shape == a.shape and len(a) > 0 and np.all(a > 0) and np.all(np.isfinite(c))):
                ctx.violation("loader:malformed-parameter-set", f"{arg!r}: shapes {c.shape}/{a.shape}, min alpha {a.min() if len(a) else None}", case)
            # history: the caller edits the arrays it was handed (normalises the coefficients, takes logarithms of the exponents
            # in place), then loads again -- by any spelling: the shipped set again (added after seeded change C17-I: the loader
            # handed out its own cached arrays)
            ctx.count(section="loader")
            try:
                c /= c.sum() if c.sum() != 0 else 1.0
                np.log(a, out=a)
                for form2, arg2 in (("int", z), ("symbol", sym), ("np.int64", np.int64(z))):
                    c2, a2 = cou.load_atomic_gaussian_params(arg2)
                    if not (np.array_equal(c2, rc) and np.array_equal(a2, ra)):
                        ctx.violation("loader:history:second-load-after-edit-differs-from-json", f"{arg!r}: after the arrays of the first load were "
                                      f"edited in place, loading {arg2!r} gives exponent[0] = {a2[0]!r}, the file has {ra[0]!r}",
                                      dict(case, history="load, edit returned arrays in place, load"))
                        break
            except Exception as exc:
                ctx.violation(f"loader:history:raised:{type(exc).__name__}", f"{arg!r}: editing the returned arrays / loading again raised {exc}", case)
    for badarg in ("Xx", "", 0, 119, -1):
        ctx.count(section="loader")
        try:
            cou.load_atomic_gaussian_params(badarg)
            ctx.violation("loader:invalid-element-accepted", f"{badarg!r} accepted", {"route": "loader-bad", "arg": repr(badarg)})
        except ValueError:
            ctx.nontrivial(("loader-bad", repr(badarg)), section="loader")
    for badarg in (1.0, None):
        ctx.count(section="loader")
        try:
            cou.load_atomic_gaussian_params(badarg)
            ctx.violation("loader:invalid-type-accepted", f"{badarg!r} accepted", {"route": "loader-bad", "arg": repr(badarg)})
        except TypeError:
            ctx.nontrivial(("loader-bad", repr(badarg)), section="loader")
    ctx.cov["elements_with_shipped_parameters"] = shipped


def run(ctx):
    ctx.cov["oracle_selftest"] = selftest()
    jobs = []
    for kind in ("s", "p"):
        for shard in lattice.chunks(ALPHAS, 8):
            jobs.append((kind, shard, ctx.seed))
    for res in lattice.pmap(_single_shard, jobs, ctx.workers):
        ctx.merge(res)
    ctx.guarded("multi_centre", multi_centre, ctx)
    ctx.guarded("loader", loader, ctx)
    ctx.guarded("refill", refill_histories, ctx)
    ctx.guarded("exponent-forms", exponent_forms, ctx)
    ctx.guarded("homogeneity", homogeneity, ctx)
    ctx.guarded("dtype-forms", dtype_forms, ctx)
    ctx.cov["alphas"] = [ALPHAS[0], ALPHAS[-1], len(ALPHAS)]
    ctx.cov["radii"] = [repr(r) for r in RS]
    ctx.exhaustive = True


def replay(ctx, case):
    if case["route"] == "single":
        ctx.merge(_single_shard((case["kind"], [case["alpha"]], ctx.seed)))
    elif case["route"].startswith("multi"):
        multi_centre(ctx)
    elif case["route"] == "refill":
        refill_histories(ctx)
    elif case["route"] == "homogeneity":
        homogeneity(ctx)
    elif case["route"] == "exponent-forms":
        exponent_forms(ctx)
    elif case["route"] == "dtype-forms":
        dtype_forms(ctx)
    else:
        loader(ctx)
