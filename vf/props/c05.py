"""C05 -- an atomic grid is exactly the product of its radial grid and per-shell spheres.

Engine E2:
 * structure: 4 radial grids (3-6 nodes, with and without an r = 0 node, Becke- and linearly
   transformed) x ALL degree sequences of that length over a per-method alphabet of 3 degrees
   (quick: lengths 3-4 complete, 5-6 with <= 2 deviations) and size sequences x 4 angular methods
   x centres {0, (1,-2,0.5)} x rotation seeds {0, 1, 37, 2^32-n-1};
 * from_pruned: every placement of 1-2 sector radii relative to the nodes (below the first,
   between, above the last; exact ties are accepted either way) x degree / size sectors;
 * presets: complete -- 17 presets x every tabulated element, with a radial grid of the prescribed
   size where the preset prescribes one and the default radial grid where one exists.

Oracle: for each shell i  (points[idx_i:idx_{i+1}] - centre)/r_i = A Q  with A the unit angular
grid of that degree (built with cache=False; covered by C02/C12) and Q recovered by least squares
and required orthogonal (Q = I for rotate = 0, identical on rebuild with the same seed);
weights = w_i r_i^2 x angular weights; index table consistent; integrals of g(r) Y_lm factorise
for l <= min degree (3 radial shapes x all (l, m), harmonics from vf/oracles/harm.py); centre
shift translates points; get_shell_grid(i) carries that shell's weights (with / without r^2) and
centre-relative points; preset shells are never coarser than the raw .npz tables prescribe.
"""

from __future__ import annotations

import itertools
import os
import warnings

import numpy as np

from vf import lattice
from vf.cli import WorkerResult
from vf.oracles import harm
from vf.props.c12 import listing, oracle_by_degree, oracle_by_size


def _gt(a, b):
    """a > b that is also True when a is NaN (a silent NaN must never pass a tolerance test)."""
    return ~(np.asarray(a) <= np.asarray(b))


LEVEL = "exploration"
RULE = (
    "product radial grid x degree/size sequence x method x centre x rotation seed (structure), "
    "sector placements (from_pruned), preset x element (complete); one evaluation = one shell "
    "identity or one factorised integral; distinct non-trivial = distinct (configuration, shell) "
    "or (configuration, radial shape, l, m)"
)
ASSUMPTIONS = [
    "AngularGrid(degree, method, cache=False) is the unit angular grid (decided by C02 / C12)",
    "exact ties r == sector boundary may go to either neighbouring sector (docstring is ambiguous)",
]

DEG_ALPHABET = {"lebedev": (3, 7, 5), "spherical": (3, 7, 4), "maxdet": (2, 6, 5), "ahrens_beylkin": (14, 23, 19)}
CENTRES = ((0.0, 0.0, 0.0), (1.0, -2.0, 0.5))
PRESETS = ("coarse", "medium", "fine", "veryfine", "ultrafine", "insane", "sg_0", "sg_1", "sg_2", "sg_3",
           "g1", "g2", "g3", "g4", "g5", "g6", "g7")
COUNT_PRESETS = ("sg_0", "sg_2", "sg_3", "g1", "g2", "g3", "g4", "g5", "g6", "g7")


def rgrids():
    from grid.basegrid import OneDGrid
    from grid.onedgrid import ClenshawCurtis, GaussChebyshev, GaussLegendre
    from grid.rtransform import BeckeRTransform, LinearFiniteRTransform

    with warnings.catch_warnings():
        warnings.simplefilter("ignore")
        return {
            "explicit3-r0": OneDGrid(np.array([0.0, 0.3, 0.9]), np.array([0.1, 0.4, 0.6]), (0, np.inf)),
            "becke-gl4": BeckeRTransform(0.0, 1.5).transform_1d_grid(GaussLegendre(4)),
            "linear-gc5": LinearFiniteRTransform(0.1, 3.0).transform_1d_grid(GaussChebyshev(5)),
            "linear-cc6-r0": LinearFiniteRTransform(0.0, 2.0).transform_1d_grid(ClenshawCurtis(6)),
            # radial nodes need not be ascending (a reversed grid, what a decreasing map returns, a core
            # grid followed by a valence grid): added after seeded change C05-B was missed
            "descending5": OneDGrid(np.array([2.6, 1.5, 0.9, 0.35, 0.1]), np.array([0.9, 0.6, 0.4, 0.2, 0.1]), (0, np.inf)),
            # degenerate sizes: a single shell, two shells
            # a first shell at a tiny non-zero radius (below the library's 1e-8 "is zero" threshold)
            "tiny3": OneDGrid(np.array([5e-9, 0.3, 0.9]), np.array([1e-9, 0.4, 0.6]), (0, np.inf)),
            "single1": OneDGrid(np.array([0.7]), np.array([0.4]), (0, np.inf)),
            "pair2": OneDGrid(np.array([0.25, 1.3]), np.array([0.3, 0.9]), (0, np.inf)),
            "unsorted5": OneDGrid(np.array([0.2, 0.6, 1.1, 0.05, 2.4]), np.array([0.2, 0.4, 0.5, 0.1, 0.8]), (0, np.inf)),
            # nodes and weights both stored in an integer dtype (an index grid, what UniformInteger-like grids hold): added
            # after seeded change C05-L (output arrays allocated "like" the radial weights truncated every weight)
            "ints4": OneDGrid(np.arange(1, 5), np.array([1, 2, 1, 3]), (0, np.inf)),
        }


_ANG = {}


def unit_grid(method, degree):
    from grid.angular import AngularGrid

    key = (method, int(degree))
    if key not in _ANG:
        with warnings.catch_warnings():
            warnings.simplefilter("ignore")
            g = AngularGrid(degree=int(degree), method=method, cache=False)
        _ANG[key] = (np.array(g.points), np.array(g.weights), int(g.degree))
    return _ANG[key]


def check_shells(res, tag, case, g, rg, exp_degrees, method, centre, rotate, check_q=True):
    """Shell-by-shell identities.  Returns True when the structure is sound."""
    pts, w, idx = np.asarray(g.points), np.asarray(g.weights), np.asarray(g.indices)
    n = rg.size
    res.count()
    if len(idx) != n + 1 or idx[0] != 0 or idx[-1] != len(pts) or g.size != len(pts) or len(w) != len(pts):
        res.violation(f"{tag}:index-table-inconsistent", f"indices {idx.tolist()} for {len(pts)} points, {n} shells", case)
        return False
    if [int(d) for d in g.degrees] != [int(d) for d in exp_degrees]:
        res.violation(f"{tag}:degrees-differ", f"degrees {list(map(int, g.degrees))}, expected {list(map(int, exp_degrees))}", case)
        return False
    ok = True
    for i in range(n):
        res.count()
        A, aw, _ = unit_grid(method, exp_degrees[i])
        lo, hi = idx[i], idx[i + 1]
        if hi - lo != len(A):
            res.violation(f"{tag}:shell-size", f"shell {i} has {hi - lo} points, angular grid of degree {exp_degrees[i]} has {len(A)}", case)
            return False
        r = float(rg.points[i])
        X = pts[lo:hi] - np.asarray(centre)
        res.nontrivial()
        ew = rg.weights[i] * r * r * aw
        if _gt(np.max(np.abs(w[lo:hi] - ew)), 1e-14 * (np.max(np.abs(ew)) + 1e-300) + 1e-300):
            res.violation(f"{tag}:weights-not-w-r2-angular", f"shell {i} (r={r:.4g}): weights differ from w_i r_i^2 x angular weights by "
                          f"{np.max(np.abs(w[lo:hi] - ew)):.3e}", dict(case, shell=i))
            ok = False
        if r == 0.0:
            if _gt(np.max(np.abs(X)), 1e-15):
                res.violation(f"{tag}:r0-shell-not-at-centre", f"shell {i} at r=0 is not at the centre", dict(case, shell=i))
                ok = False
            continue
        U = X / r
        cscale = 1.0 + np.max(np.abs(centre)) / r
        if rotate == 0:
            if _gt(np.max(np.abs(U - A)), 4e-16 * cscale * 4):
                res.violation(f"{tag}:points-not-centre-plus-r-times-unit-grid",
                              f"shell {i} (r={r:.4g}): points differ from centre + r_i x unit grid by {np.max(np.abs(U - A)) * r:.3e}",
                              dict(case, shell=i))
                ok = False
        elif check_q:
            Q, *_ = np.linalg.lstsq(A, U, rcond=None)
            resid = np.max(np.abs(A @ Q - U))
            orth = np.max(np.abs(Q.T @ Q - np.eye(3)))
            if _gt(resid, 1e-13 * cscale) or _gt(orth, 1e-12 * cscale) or _gt(abs(np.linalg.det(Q) - 1), 1e-12 * cscale):
                res.violation(f"{tag}:shell-not-orthogonal-image-of-unit-grid",
                              f"shell {i} (r={r:.4g}, rotate={rotate}): residual {resid:.2e}, |QtQ-I| {orth:.2e}, det {np.linalg.det(Q):.6f}",
                              dict(case, shell=i))
                ok = False
    return ok


def _expected_degrees(method, seq, kind):
    pairs = listing(method)
    fn = oracle_by_degree if kind == "degrees" else oracle_by_size
    return [fn(pairs, int(q))[0] for q in seq]


RADIAL_SHAPES = (lambda r: np.exp(-r), lambda r: r * np.exp(-r * r), lambda r: r * r * np.exp(-r / 2))


def _struct_case(arg):
    rname, method, kind, seq, ci, rotate_code, seed = arg
    from grid.atomgrid import AtomGrid

    res = WorkerResult(section=f"structure:{method}")
    rg = rgrids()[rname]
    n = rg.size
    centre = np.array(CENTRES[ci]) + (lattice.jitter(seed, "c", 0.0, 0.2) if ci else 0.0)
    rotate = {0: 0, 1: 1, 2: 37, 3: 2**32 - n - 1, 4: np.int64(37), 5: np.int32(1), 6: True, 7: False}[rotate_code]
    case = {"route": "structure", "rgrid": rname, "method": method, "kind": kind, "seq": list(seq), "centre": ci,
            "rotate_code": rotate_code}
    tag = "structure"
    exp = _expected_degrees(method, seq, kind)
    if kind == "sizes":
        seq = [max(1, listing(method)[[p[0] for p in listing(method)].index(d)][1] - (k % 2)) for k, d in enumerate(exp)]
        exp = _expected_degrees(method, seq, "sizes")
    kw = {"degrees": list(seq)} if kind == "degrees" else {"degrees": None, "sizes": list(seq)}
    snap = (np.array(rg.points), np.array(rg.weights), centre.copy())
    try:
        with warnings.catch_warnings():
            warnings.simplefilter("ignore")
            g = AtomGrid(rg, center=centre, rotate=rotate, method=method, **kw)
            g2 = AtomGrid(rg, center=centre, rotate=rotate, method=method, **kw)
            g0 = AtomGrid(rg, center=np.zeros(3), rotate=rotate, method=method, **kw)
    except Exception as exc:
        res.count()
        res.violation(f"{tag}:raised:{type(exc).__name__}", f"AtomGrid({kw}, method={method}, rotate={rotate}) raised {exc}", case)
        return res.as_dict()
    if not check_shells(res, tag, case, g, rg, exp, method, centre, rotate):
        return res.as_dict()
    res.count(3)
    if not (np.array_equal(g.points, g2.points) and np.array_equal(g.weights, g2.weights)):
        res.violation(f"{tag}:not-reproducible-from-seed", f"two builds with rotate={rotate} differ", case)
    if rotate_code >= 4:
        # a NumPy integer seed, or the flags True / False (Python ints 1 / 0), are the same seed as the Python integer of equal value
        with warnings.catch_warnings():
            warnings.simplefilter("ignore")
            gi = AtomGrid(rg, center=centre, rotate=int(rotate), method=method, **kw)
        res.count()
        if not (np.array_equal(g.points, gi.points) and np.array_equal(g.weights, gi.weights)):
            res.violation(f"{tag}:numpy-integer-seed-differs", f"rotate={rotate!r} ({type(rotate).__name__}) and rotate={int(rotate)} differ", case)
    if _gt(np.max(np.abs((g.points - centre) - g0.points)), 4e-16 * (1 + np.max(np.abs(centre))) * 4) or not np.array_equal(g.weights, g0.weights):
        res.violation(f"{tag}:centre-does-not-only-translate", "moving the centre changes relative points or weights", case)
    if rotate:
        with warnings.catch_warnings():
            warnings.simplefilter("ignore")
            gn = AtomGrid(rg, center=centre, rotate=0, method=method, **kw)
        rr = np.linalg.norm(g.points - centre, axis=1)
        rn = np.linalg.norm(gn.points - centre, axis=1)
        if not np.array_equal(g.weights, gn.weights) or _gt(np.max(np.abs(rr - rn)), 1e-14 * (1 + np.max(rn))):
            res.violation(f"{tag}:rotation-changes-radii-or-weights", f"rotate={rotate} changes radii or weights", case)
        if np.array_equal(g.points, gn.points) and len(set(exp)) and any(r > 0 for r in rg.points):
            res.violation(f"{tag}:rotation-has-no-effect", f"rotate={rotate} gives the unrotated grid", case)
    if not (np.array_equal(rg.points, snap[0]) and np.array_equal(rg.weights, snap[1]) and np.array_equal(centre, snap[2])):
        res.violation(f"{tag}:argument-modified", "radial grid or centre was modified", case)
    # the array handed out by .points is the caller's: editing it in place must not move the grid (the points are
    # centre + stored offsets; seeded change C05-K returned the stored array itself for a centre at the origin)
    res.count()
    keep_p = np.array(g.points)
    handed = g.points
    try:
        handed += 1.5
        handed *= -2.0
    except ValueError:
        pass          # a write-protected array is a legitimate way to keep the grid safe
    if not np.array_equal(np.asarray(g.points), keep_p):
        res.violation(f"{tag}:points-array-aliases-the-grid", "editing the array returned by .points in place changed the grid's points", case)
        return res.as_dict()
    # per-shell grids
    for i in range(rg.size):
        for r_sq in (True, False):
            res.count()
            with warnings.catch_warnings():
                warnings.simplefilter("ignore")
                s = g.get_shell_grid(i, r_sq=r_sq)
            lo, hi = g.indices[i], g.indices[i + 1]
            A, aw, _ = unit_grid(method, exp[i])
            ew = g.weights[lo:hi] if r_sq else rg.weights[i] * aw
            if s.points.shape != (hi - lo, 3) or _gt(np.max(np.abs(s.points - (g.points[lo:hi] - centre))), 4e-15 * (1 + np.max(np.abs(centre)))):
                res.violation(f"{tag}:shell-grid-points", f"get_shell_grid({i}) points are not that shell's centre-relative points", dict(case, shell=i))
            if _gt(np.max(np.abs(s.weights - ew)), 1e-14 * (np.max(np.abs(ew)) + 1e-300) + 1e-300):
                res.violation(f"{tag}:shell-grid-weights:r_sq={r_sq}", f"get_shell_grid({i}, r_sq={r_sq}) weights differ", dict(case, shell=i))
    # factorised integrals of g(r) Y_lm for l <= min degree
    lmin = int(min(exp))
    lcap = min(lmin, 8)
    rel = g.points - centre
    r = np.linalg.norm(rel, axis=1)
    unit = np.zeros_like(rel)
    nz = r > 0
    unit[nz] = rel[nz] / r[nz, None]
    # shells at r = 0 carry zero weight (w r^2 = 0); any direction serves
    unit[~nz] = np.array([0.0, 0.0, 1.0])
    y = harm.ylm_f64(lcap, unit)
    for si, shape in enumerate(RADIAL_SHAPES):
        gr = shape(r)
        radial = float(np.sum(rg.weights * rg.points**2 * shape(rg.points)))
        tot = np.sum(np.abs(g.weights * gr))
        for row in range(y.shape[0]):
            res.count()
            got = float(np.sum(g.weights * gr * y[row]))
            ref = radial * np.sqrt(4 * np.pi) if row == 0 else 0.0
            res.nontrivial()
            if _gt(abs(got - ref), 1e-10 * (tot + abs(ref))):
                l, m = harm.horton_lm(lcap)[row]
                res.violation(f"{tag}:integral-does-not-factorise", f"integral of g_{si}(r) Y_({l},{m}) = {got!r}, expected {ref!r}",
                              dict(case, l=l, m=m))
                break
    res.sample(case)
    return res.as_dict()


def _pruned_case(arg):
    rname, method, kind, bounds, sectors, seed = arg[:6]
    ci, rotate = arg[6:] if len(arg) > 6 else (0, 0)
    from grid.atomgrid import AtomGrid

    res = WorkerResult(section="from_pruned")
    rg = rgrids()[rname]
    radius = 1.3
    case = {"route": "pruned", "rgrid": rname, "method": method, "kind": kind, "bounds": list(bounds), "sectors": list(sectors),
            "centre": ci, "rotate": int(rotate)}
    centre = np.array(CENTRES[ci])
    opt = {} if (ci, rotate) == (0, 0) else {"center": centre.copy(), "rotate": rotate}
    pairs = listing(method)
    fn = oracle_by_degree if kind == "d" else oracle_by_size
    sector_deg = [fn(pairs, int(q))[0] for q in sectors]
    b = np.array(bounds) * radius
    res.count()
    try:
        with warnings.catch_warnings():
            warnings.simplefilter("ignore")
            if kind == "d":
                g = AtomGrid.from_pruned(rg, radius, r_sectors=list(bounds), d_sectors=list(sectors), method=method, **opt)
            else:
                g = AtomGrid.from_pruned(rg, radius, r_sectors=list(bounds), d_sectors=None, s_sectors=list(sectors), method=method, **opt)
    except Exception as exc:
        res.violation(f"pruned:raised:{type(exc).__name__}", f"from_pruned raised {exc}", case)
        return res.as_dict()
    got = [int(d) for d in g.degrees]
    exp = []
    for i, r in enumerate(rg.points):
        pos_hi = int(np.sum(r > b))
        pos_lo = int(np.sum(r >= b))
        allowed = {sector_deg[pos_hi], sector_deg[pos_lo]}
        exp.append(allowed)
    res.nontrivial()
    if len(got) != rg.size or any(d not in a for d, a in zip(got, exp)):
        res.violation("pruned:wrong-sector-degree", f"from_pruned degrees {got}, allowed per shell {[sorted(a) for a in exp]} "
                      f"(nodes {np.round(rg.points, 4).tolist()}, boundaries {b.tolist()})", case)
        return res.as_dict()
    check_shells(res, "pruned", case, g, rg, got, method, centre, rotate)
    # the classmethod is the plain constructor with the per-shell degrees, same centre, same seed
    with warnings.catch_warnings():
        warnings.simplefilter("ignore")
        hand = AtomGrid(rg, degrees=list(got), center=centre.copy(), rotate=rotate, method=method)
        # array-valued arguments are documented alternatives of the lists
        if kind == "d":
            ga = AtomGrid.from_pruned(rg, radius, r_sectors=np.array(bounds), d_sectors=np.array(sectors), method=method, **opt)
        else:
            ga = AtomGrid.from_pruned(rg, radius, r_sectors=np.array(bounds), d_sectors=None, s_sectors=np.array(sectors), method=method, **opt)
    res.count(2)
    if g.points.shape != hand.points.shape or _gt(np.max(np.abs(g.points - hand.points)), 1e-14 * (1 + np.max(np.abs(hand.points)))) \
            or _gt(np.max(np.abs(g.weights - hand.weights)), 1e-14 * np.max(np.abs(hand.weights))):
        res.violation("pruned:differs-from-plain-constructor", "from_pruned differs from AtomGrid(rgrid, degrees=<its degrees>, same centre, "
                      "same seed, same method)", case)
    if ga.points.shape != g.points.shape or not (np.array_equal(ga.points, g.points) and np.array_equal(ga.weights, g.weights)):
        res.violation("pruned:array-arguments-differ-from-lists", "from_pruned with ndarray sectors differs from the list call", case)
    return res.as_dict()


def _forms_case(arg):
    """Documented argument forms of the plain constructor give the grid of the full explicit list."""
    rname, method, seed = arg
    from grid.atomgrid import AtomGrid

    res = WorkerResult(section="argument-forms")
    rg = rgrids()[rname]
    n = rg.size
    alpha = DEG_ALPHABET[method]
    pairs = listing(method)
    seq = [alpha[k % 3] for k in range(n)]
    sizes = [oracle_by_degree(pairs, d)[1] - (k % 2) for k, d in enumerate(seq)]
    centre = np.array(CENTRES[1])

    def build(**kw):
        kw = dict(kw)
        c = kw.pop("_center", centre.copy())
        with warnings.catch_warnings():
            warnings.simplefilter("ignore")
            return AtomGrid(rg, center=c, rotate=37, method=method, **kw)

    forms = [
        ("single-degree-broadcast", dict(degrees=[alpha[1]]), dict(degrees=[alpha[1]] * n)),
        ("single-degree-array-broadcast", dict(degrees=np.array([alpha[1]])), dict(degrees=[alpha[1]] * n)),
        ("degrees-as-array", dict(degrees=np.array(seq)), dict(degrees=list(seq))),
        ("degrees-as-int32-array", dict(degrees=np.array(seq, dtype=np.int32)), dict(degrees=list(seq))),
        ("sizes-as-array", dict(degrees=None, sizes=np.array(sizes)), dict(degrees=None, sizes=list(sizes))),
        ("single-size-broadcast", dict(degrees=None, sizes=[sizes[0]]), dict(degrees=None, sizes=[sizes[0]] * n)),
        ("sizes-win-over-degrees", dict(degrees=[alpha[0]] * n, sizes=list(sizes)), dict(degrees=None, sizes=list(sizes))),
        ("centre-as-list", dict(degrees=list(seq), _center=[1.0, -2.0, 0.5]), dict(degrees=list(seq), _center=np.array([1.0, -2.0, 0.5]))),
        ("centre-as-int-array", dict(degrees=list(seq), _center=np.array([1, -2, 3])), dict(degrees=list(seq), _center=np.array([1.0, -2.0, 3.0]))),
    ]
    for name, a, b in forms:
        case = {"route": "forms", "rgrid": rname, "method": method, "form": name}
        res.count()
        try:
            ga, gb = build(**a), build(**b)
        except Exception as exc:
            res.violation(f"forms:{name}:raised:{type(exc).__name__}", f"AtomGrid({a}) raised {exc}", case)
            continue
        res.nontrivial()
        if ga.points.shape != gb.points.shape or not (np.array_equal(ga.points, gb.points) and np.array_equal(ga.weights, gb.weights)
                                                      and np.array_equal(ga.indices, gb.indices)):
            res.violation(f"forms:{name}:differs-from-explicit-list", f"AtomGrid({a}) differs from AtomGrid({b})", case)
    if method == "lebedev":
        case = {"route": "forms", "rgrid": rname, "method": method, "form": "default-degrees"}
        res.count()
        with warnings.catch_warnings():
            warnings.simplefilter("ignore")
            g = AtomGrid(rg)
        d50 = oracle_by_degree(pairs, 50)[0]
        check_shells(res, "forms:default-degrees", case, g, rg, [d50] * n, "lebedev", np.zeros(3), 0)
    return res.as_dict()


def preset_tables(preset):
    import grid

    path = os.path.join(os.path.dirname(grid.__file__), "data", "prune_grid", f"prune_grid_{preset}.npz")
    with np.load(path) as d:
        return {k: np.array(d[k]) for k in d.files}


def _preset_case(arg):
    preset, z, seed = arg
    from grid.atomgrid import AtomGrid
    from grid.onedgrid import UniformInteger
    from grid.rtransform import PowerRTransform
    try:
        from grid.utils import _DEFAULT_POWER_RTRANSFORM_PARAMS
    except ImportError:      # (the table of default radial grids is data; without it the default-rgrid builds are skipped)
        _DEFAULT_POWER_RTRANSFORM_PARAMS = {}

    res = WorkerResult(section=f"preset:{preset}")
    tab = preset_tables(preset)
    rad, npt = tab[f"{z}_rad"], tab[f"{z}_npt"]
    case = {"route": "preset", "preset": preset, "z": z}
    shell_counts = preset in COUNT_PRESETS or (preset == "sg_1" and len(npt) == len(rad) and np.issubdtype(rad.dtype, np.integer))
    pairs = listing("lebedev")
    builds = []
    with warnings.catch_warnings():
        warnings.simplefilter("ignore")
        if shell_counts:
            nrad = int(np.sum(rad))
            rmax = 12.0 + 60.0 * (z > 18)
            builds.append(("prescribed-size", PowerRTransform(1e-3 * (1 + lattice.jitter(seed, "rm", 0, 0.3)), rmax).transform_1d_grid(UniformInteger(nrad))))
        else:
            builds.append(("given-rgrid", PowerRTransform(1e-3, 25.0).transform_1d_grid(UniformInteger(40))))
            if z % 7 == 1:
                from grid.basegrid import OneDGrid

                asc = PowerRTransform(1e-2, 12.0).transform_1d_grid(UniformInteger(24))
                builds.append(("descending-rgrid", OneDGrid(asc.points[::-1].copy(), asc.weights[::-1].copy(), (0, np.inf))))
            if z in _DEFAULT_POWER_RTRANSFORM_PARAMS:
                builds.append(("default-rgrid", None))
    for bname, rg in builds:
        res.count()
        c2 = dict(case, rgrid=bname)
        try:
            with warnings.catch_warnings():
                warnings.simplefilter("ignore")
                g = AtomGrid.from_preset(int(z), preset, rg, rotate=0)
        except Exception as exc:
            datakey = "data-inconsistent" if (shell_counts and len(rad) != len(npt)) else "code"
            res.violation(f"preset:{preset}:Z={z}:cannot-build:{type(exc).__name__}:{datakey}",
                          f"from_preset({z}, {preset!r}, {bname}) raised {type(exc).__name__}: {exc} "
                          f"(table: {len(rad)} sector entries, {len(npt)} sizes)", c2)
            continue
        rgu = g.rgrid
        sizes = np.diff(g.indices)
        if shell_counts:
            m = min(len(npt), len(rad))
            if len(npt) != len(rad):
                res.note(f"data: preset {preset} Z={z} tabulates {len(rad)} sector counts but {len(npt)} sizes")
            want = np.repeat(npt[:m], rad[:m])
            allowed = [{int(v)} for v in want]
        else:
            allowed = []
            for r in rgu.points:
                allowed.append({int(npt[int(np.sum(r > rad))]), int(npt[int(np.sum(r >= rad))])})
        res.nontrivial()
        if len(sizes) != len(allowed):
            res.violation(f"preset:{preset}:shell-count", f"{len(sizes)} shells for {len(allowed)} tabulated", c2)
            continue
        coarse = [i for i, (s, a) in enumerate(zip(sizes, allowed)) if s < min(a)]
        exact = [oracle_by_size(pairs, min(a))[1] for a in allowed]
        wrong = [i for i, (s, a) in enumerate(zip(sizes, allowed)) if int(s) not in {oracle_by_size(pairs, v)[1] for v in a}]
        if coarse:
            res.violation(f"preset:{preset}:shell-coarser-than-tabulated",
                          f"from_preset({z}, {preset!r}): shell {coarse[0]} has {sizes[coarse[0]]} points, table prescribes "
                          f">= {min(allowed[coarse[0]])}", c2)
        elif wrong:
            res.violation(f"preset:{preset}:shell-not-smallest-grid-not-below",
                          f"from_preset({z}, {preset!r}): shell {wrong[0]} has {sizes[wrong[0]]} points, expected {exact[wrong[0]]}", c2)
        if z % 9 == 1 or (bname == "default-rgrid" and z % 4 == 1):
            check_shells(res, f"preset:{preset}", c2, g, rgu, [int(d) for d in g.degrees], "lebedev", np.zeros(3), 0)
    # the other arguments of the classmethod (centre, seed, method) reach the grid: for a few elements per preset
    if z % 6 == 1 or z in (8, 17):
        bname, rg = builds[0]
        centre = np.array(CENTRES[1])
        for method in ("lebedev", "spherical", "maxdet", "ahrens_beylkin"):
            mpairs = listing(method)
            top = max(p[1] for p in mpairs)
            c2 = dict(case, rgrid=bname, method=method, centre=1, rotate=37)
            res.count()
            if int(np.max(npt)) > top:
                # the method has no grid that large: refusing is the documented answer
                try:
                    with warnings.catch_warnings():
                        warnings.simplefilter("ignore")
                        AtomGrid.from_preset(int(z), preset, rg, center=centre.copy(), rotate=37, method=method)
                except Exception:
                    res.inadm()
                    continue
                res.violation(f"preset:{preset}:size-above-maximum-accepted", f"from_preset({z}, {preset!r}, method={method}) "
                              f"built a grid although a sector asks for {int(np.max(npt))} > {top} points", c2)
                continue
            try:
                with warnings.catch_warnings():
                    warnings.simplefilter("ignore")
                    g = AtomGrid.from_preset(int(z), preset, rg, center=centre.copy(), rotate=37, method=method)
                    g0 = AtomGrid.from_preset(int(z), preset, rg, method=method)
            except Exception as exc:
                if shell_counts and len(rad) != len(npt):
                    continue          # the recorded data inconsistency, reported above
                res.violation(f"preset:{preset}:options:raised:{type(exc).__name__}", f"from_preset({z}, {preset!r}, center, rotate=37, "
                              f"method={method}) raised {exc}", c2)
                continue
            sizes = np.diff(g.indices)
            if shell_counts:
                m = min(len(npt), len(rad))
                allowed = [{int(v)} for v in np.repeat(npt[:m], rad[:m])]
            else:
                allowed = [{int(npt[int(np.sum(r > rad))]), int(npt[int(np.sum(r >= rad))])} for r in g.rgrid.points]
            res.nontrivial()
            if len(sizes) != len(allowed) or any(int(sz) not in {oracle_by_size(mpairs, v)[1] for v in a} for sz, a in zip(sizes, allowed)):
                res.violation(f"preset:{preset}:method:shell-not-smallest-grid-not-below",
                              f"from_preset({z}, {preset!r}, method={method}): shell sizes {sizes.tolist()[:8]}... do not follow the "
                              f"method's table", c2)
                continue
            check_shells(res, f"preset:{preset}:options", c2, g, g.rgrid, [int(d) for d in g.degrees], method, centre, 37)
            # rotation and centre change nothing but orientation and position
            if not np.array_equal(g.weights, g0.weights) or not np.array_equal(g.indices, g0.indices):
                res.violation(f"preset:{preset}:options:weights-or-shells-depend-on-centre-or-seed",
                              f"from_preset({z}, {preset!r}, method={method}): weights or index table change with centre / seed", c2)
    if z in (1, 8):
        res.sample(case)
    return res.as_dict()


def run(ctx):
    jobs = []
    rg = rgrids()
    for rname, g in rg.items():
        n = g.size
        for method, alpha in DEG_ALPHABET.items():
            if n <= 4 or ctx.thorough:
                seqs = list(itertools.product(alpha, repeat=n))
            else:
                seqs = [tuple(v) for v in lattice.deviations([alpha] * n, 2)]
            for k, seq in enumerate(seqs):
                # centre / rotation alphabet: complete for the first sequences, deviation <= 1 otherwise
                combos = list(itertools.product((0, 1), (0, 1, 2, 3, 4, 5, 6, 7))) if (k < 4 or ctx.thorough and k % 5 == 0) else [(0, 0), (1, 2), (k % 2, (k % 3) + 1)]
                for ci, rc in combos:
                    jobs.append(("s", (rname, method, "degrees", seq, ci, rc, ctx.seed)))
            for seq in seqs[:: max(1, len(seqs) // 12)]:
                jobs.append(("s", (rname, method, "sizes", seq, 1, 2, ctx.seed)))
    # from_pruned: boundaries relative to the nodes
    for rname in ("becke-gl4", "explicit3-r0", "descending5", "unsorted5"):
        pts = np.sort(rg[rname].points) / 1.3
        mids = [0.5 * pts[0] if pts[0] > 0 else -0.1] + [0.5 * (a + b) for a, b in zip(pts[:-1], pts[1:])] + [pts[-1] * 1.5]
        cands = sorted(set(np.round(mids, 6)) | {float(pts[1])})  # one boundary exactly on a node (tie)
        for method, alpha in DEG_ALPHABET.items():
            pairs = listing(method)
            for nb in (1, 2):
                for bounds in itertools.combinations(cands, nb):
                    for kind in ("d", "s"):
                        sec = alpha[: nb + 1] if kind == "d" else tuple(oracle_by_degree(pairs, d)[1] - 1 for d in alpha[: nb + 1])
                        jobs.append(("p", (rname, method, kind, bounds, sec, ctx.seed)))
                        if nb == 2 or ctx.thorough:
                            jobs.append(("p", (rname, method, kind, bounds, sec, ctx.seed, 1, 37)))
    for rname in rg:
        for method in DEG_ALPHABET:
            jobs.append(("f", (rname, method, ctx.seed)))
    # presets: complete
    n_pre = 0
    for preset in PRESETS:
        tab = preset_tables(preset)
        for z in sorted(int(k.split("_")[0]) for k in tab if k.endswith("_rad")):
            jobs.append(("r", (preset, z, ctx.seed)))
            n_pre += 1
    for res in lattice.pmap(_dispatch, jobs, ctx.workers, chunksize=8):
        if len(ctx.samples) > 8:
            res["samples"] = []
        ctx.merge(res)
    ctx.cov["jobs"] = len(jobs)
    ctx.cov["preset_element_pairs"] = n_pre
    ctx.exhaustive = True


def _dispatch(job):
    kind, arg = job
    return {"s": _struct_case, "p": _pruned_case, "r": _preset_case, "f": _forms_case}[kind](arg)


def replay(ctx, case):
    r = case.get("route")
    if r == "structure":
        ctx.merge(_struct_case((case["rgrid"], case["method"], case["kind"], tuple(case["seq"]), case["centre"],
                                case["rotate_code"], ctx.seed)))
    elif r == "forms":
        ctx.merge(_forms_case((case["rgrid"], case["method"], ctx.seed)))
    elif r == "pruned":
        ctx.merge(_pruned_case((case["rgrid"], case["method"], case["kind"], tuple(case["bounds"]), tuple(case["sectors"]), ctx.seed,
                                case.get("centre", 0), case.get("rotate", 0))))
    else:
        ctx.merge(_preset_case((case["preset"], case["z"], ctx.seed)))
