"""C18 -- multi-domain integration equals the iterated product quadrature.

Engine E2 (complete product): number of domains 1..3 x grid sizes 1..4 (every size tuple) x point
dimensionality {all 1-D, all 3-D, mixed} x repeated-grid mode (one grid, num_domains 1..3) x
integrands {separable product, non-separable smooth, first coordinate of the first argument} x
{vectorised, point-by-point} x EVERY chunk size 1..size+1 and the default.

Oracle: nested Python loops over itertools.product of node indices; separable integrands also
against the product of single-grid sums; ``size``; the enumerated ``points``/``weights`` generators
equal the reference product order, can be obtained twice and consumed interleaved.
"""

from __future__ import annotations

import itertools

import warnings

import numpy as np

from vf import lattice
from vf.cli import WorkerResult

LEVEL = "exploration"
RULE = (
    "complete product (size tuple, dimensionality pattern, repeated mode) x integrand x route x "
    "chunk size; one evaluation = one integral or one generator comparison; distinct non-trivial = "
    "distinct configuration with >= 2 product nodes or a non-default chunking"
)
ASSUMPTIONS = ["reference = plain nested loops in float64; tolerance 1e-12 relative to sum |w f|"]

SIZES = (1, 2, 3, 4)
PATTERNS = ("1d", "3d", "mixed")


def make_grid(n, dim3, tag, seed):
    from grid.basegrid import Grid

    rng = np.random.default_rng([seed, n, int(dim3), sum(map(ord, tag))])
    pts = rng.uniform(-1.0, 1.5, size=(n, 3) if dim3 else n)
    w = rng.uniform(0.2, 1.3, size=n) * rng.choice([1.0, 1.0, -0.5], size=n)
    return Grid(pts, w)


def scal(p):
    """first coordinate / the scalar itself; works for single points and for arrays of points"""
    p = np.asarray(p)
    return p if p.ndim == 0 or (p.ndim == 1 and p.shape[0] != 3) else p[..., 0]


def _s(p, is3):
    p = np.asarray(p, dtype=float)
    return p[..., 0] + 0.5 * p[..., 2] if is3 else p


def integrands(dims):
    """dims: tuple of booleans (argument k is a 3-D point).  Each integrand takes one argument per
    domain; the last argument may be the array of all nodes of the last grid (vectorised route)."""
    def separable(*args):
        out = 1.0
        for k, (a, is3) in enumerate(zip(args, dims)):
            out = out * np.cos(0.7 * _s(a, is3) + 0.1 * k)
        return out

    def coupled(*args):
        tot = 0.0
        for k, (a, is3) in enumerate(zip(args, dims)):
            tot = tot + (k + 1) * _s(a, is3)
        return np.exp(-0.3 * tot * tot) + 0.2 * tot

    def first(*args):
        last = _s(args[-1], dims[-1])
        return _s(args[0], dims[0]) + 0.0 * last  # value of the first argument, shape of the last

    def ramp(*args):
        # exactly zero on a large part of the product set (whole chunks of zeros), non-zero elsewhere: added after seeded
        # change C18-E was missed (an all-zero chunk taken for the end of the stream)
        tot = 0.0
        for k, (a, is3) in enumerate(zip(args, dims)):
            tot = tot + (1 if k % 2 == 0 else -1) * _s(a, is3)
        return np.maximum(0.0, tot - 0.2) * 1.5

    def intvals(*args):
        # integer-valued results in an integer dtype (Python int for single points, int64 arrays for the vectorised route)
        tot = 0
        for k, (a, is3) in enumerate(zip(args, dims)):
            tot = tot + np.floor(3 * _s(a, is3)).astype(int) * (k + 1)
        return tot

    def cutoff(*args):
        # a cut-off kernel: the plain Python integer 0 below the cut-off, floats above (mixed result types along the
        # stream of point-by-point values; seeded change C18-G took each chunk's dtype from its first value)
        tot = 0.0
        for k, (a, is3) in enumerate(zip(args, dims)):
            tot = tot + (1 if k % 2 == 0 else -1) * _s(a, is3)
        if np.ndim(tot) == 0:
            return 0 if tot < 0.1 else float(np.exp(-tot) + 0.5)
        return np.where(tot < 0.1, 0, np.exp(-tot) + 0.5)

    def pointonly(*args):
        # an integrand written for ONE node per domain (a scalar product, a Python conditional): legal on the point-by-point
        # route only, where it must really be called with single nodes -- also for a single domain (seeded change C18-K)
        tot = 0.0
        for k, (a, is3) in enumerate(zip(args, dims)):
            a = np.asarray(a, dtype=float)
            if a.shape != ((3,) if is3 else ()):
                raise ValueError(f"point-by-point integrand called with an array of shape {a.shape} for domain {k}")
            v = float(np.dot(a, a)) if is3 else float(a)
            tot += (v if v > 0.25 else 0.0) * (k + 1)
        return tot

    def last(*args):
        # returns (a view of) its last ARGUMENT: on the vectorised route that is the last grid's own node array; the values
        # handed back must not be scaled in place (seeded change C18-L)
        a = args[-1]
        return a[..., 0] if dims[-1] else a

    table_cache = {}

    def table(*args):
        # a table of values the caller computed once and hands back on every call (the same array object each time)
        a = np.asarray(args[-1], dtype=float)
        if a.ndim == (1 if dims[-1] else 0):
            return float(np.cos(_s(a, dims[-1])) + 1.5)
        key = a.shape
        if key not in table_cache:
            table_cache[key] = np.cos(_s(a, dims[-1])) + 1.5
        return table_cache[key]

    return {"separable": separable, "coupled": coupled, "first": first, "ramp": ramp, "intvals": intvals, "cutoff": cutoff,
            "pointonly": pointonly, "last": last, "table": table}


def reference(grids, f):
    tot, scale = 0.0, 0.0
    for idx in itertools.product(*[range(g.size) for g in grids]):
        w = 1.0
        args = []
        for g, i in zip(grids, idx):
            w *= g.weights[i]
            args.append(g.points[i])
        v = float(f(*args))
        tot += w * v
        scale += abs(w * v)
    return tot, scale


def _config(arg):
    sizes, pattern, repeated, seed = arg
    from grid.ngrid import MultiDomainGrid

    res = WorkerResult(section=("repeated" if repeated else "list"))
    nd = len(sizes)
    if pattern == "1d":
        dims = (False,) * nd
    elif pattern == "3d":
        dims = (True,) * nd
    else:
        dims = tuple(bool(k % 2) for k in range(nd))
    if repeated:
        g0 = make_grid(sizes[0], dims[0], "rep", seed)
        grids = [g0] * nd
        dims = (dims[0],) * nd
        md = MultiDomainGrid([g0], num_domains=nd)
    else:
        grids = [make_grid(n, d, f"g{k}", seed) for k, (n, d) in enumerate(zip(sizes, dims))]
        md = MultiDomainGrid(list(grids))
    case = {"sizes": list(sizes), "pattern": pattern, "repeated": repeated}
    total = int(np.prod([g.size for g in grids]))
    tag = "repeated" if repeated else "list"
    # ---- size / num_domains
    res.count()
    if int(md.size) != total or md.num_domains != nd:
        res.violation(f"{tag}:size-or-num_domains", f"size={md.size}, num_domains={md.num_domains}; expected {total}, {nd}", case)
    # ---- generators: order, re-creatable, interleaved
    ref_pts = list(itertools.product(*[list(g.points) for g in grids]))
    ref_w = [float(np.prod(c)) for c in itertools.product(*[list(g.weights) for g in grids])]
    for rnd in (1, 2):
        res.count()
        try:
            pts = list(md.points)
            ws = [float(v) for v in md.weights]
        except Exception as exc:
            res.violation(f"{tag}:generators:raised:{type(exc).__name__}", f"enumerating points/weights raised {exc}", case)
            break
        ok = len(pts) == total and len(ws) == total and all(
            all(np.array_equal(a, b) for a, b in zip(p, q)) for p, q in zip(pts, ref_pts)) and np.allclose(ws, ref_w, rtol=1e-14, atol=0)
        if not ok:
            res.violation(f"{tag}:generators:wrong-product-set-or-order" + (":second-enumeration" if rnd == 2 else ""),
                          f"enumeration {rnd} of points/weights ({len(pts)}/{len(ws)} items) is not the product set in "
                          f"itertools.product order ({total} items)", case)
            break
    res.count()
    ip, iw = iter(md.points), iter(md.weights)
    inter_ok = True
    for k in range(total):
        p, w = next(ip), next(iw)
        if not (all(np.array_equal(a, b) for a, b in zip(p, ref_pts[k])) and abs(float(w) - ref_w[k]) <= 1e-14 * abs(ref_w[k])):
            inter_ok = False
            break
    if not inter_ok or next(ip, None) is not None or next(iw, None) is not None:
        res.violation(f"{tag}:generators:interleaved-consumption", "points and weights consumed alternately do not stay aligned", case)
    if total >= 2:
        res.nontrivial()
    # ---- integrals
    snap_grids = [(np.array(g.points, copy=True), np.array(g.weights, copy=True)) for g in grids]
    fs = integrands(dims)
    for fname, f in fs.items():
        ref, scale = reference(grids, f)
        tol = 1e-12 * (scale + 1e-300) + 1e-15
        if fname == "separable":
            prod = 1.0
            for k, (g, is3) in enumerate(zip(grids, dims)):
                prod *= float(np.sum(g.weights * np.cos(0.7 * _s(g.points, is3) + 0.1 * k)))
            res.count()
            if abs(prod - ref) > tol:
                raise AssertionError("reference model inconsistent")  # harness self-check
        routes = [("vectorised", dict(non_vectorized=False))]
        routes += [("pointwise-default", dict(non_vectorized=True))]
        routes += [(f"pointwise-chunk={c}", dict(non_vectorized=True, integration_chunk_size=c)) for c in range(1, total + 2)]
        if fname == "pointonly":
            routes = routes[1:]
        for rname, kw in routes:
            res.count()
            c2 = dict(case, integrand=fname, route=rname)
            try:
                got = float(md.integrate(f, **kw))
            except Exception as exc:
                res.violation(f"{tag}:{rname.split('=')[0]}:raised:{type(exc).__name__}",
                              f"integrate({fname}, {rname}) raised {type(exc).__name__}: {exc}", c2)
                continue
            if total >= 2 or "chunk" in rname:
                res.nontrivial()
            if not abs(got - ref) <= tol:
                res.violation(f"{tag}:{rname.split('=')[0]}:differs-from-nested-sum",
                              f"integrate({fname}, {rname}) = {got!r}; nested sum over the product set = {ref!r} "
                              f"(sizes {list(sizes)}, {pattern})", c2, got=got, expected=ref)
    for g, (p0, w0) in zip(grids, snap_grids):
        if not (np.array_equal(g.points, p0) and np.array_equal(g.weights, w0)):
            res.violation(f"{tag}:grid-modified-by-integrate", "a grid's nodes or weights changed while integrating (an integrand handed its "
                          "argument back)", case)
            break
    res.sample(case)
    return res.as_dict()


def _extra(arg):
    """Other grid classes as domains (computed points, 2-D points, library 1-D rules), one object listed twice, and a
    product larger than the default chunk length (6000) so that the default point-by-point route really splits."""
    name, seed = arg
    from grid.atomgrid import AtomGrid
    from grid.basegrid import Grid, OneDGrid
    from grid.cubic import UniformGrid
    from grid.ngrid import MultiDomainGrid
    from grid.onedgrid import GaussLegendre, Trapezoidal

    res = WorkerResult(section="other-domains")
    rng = np.random.default_rng([seed, 18])
    with warnings.catch_warnings():
        warnings.simplefilter("ignore")
        atom = AtomGrid(OneDGrid(np.array([0.3, 1.1]), np.array([0.4, 0.7]), (0, np.inf)), degrees=[3], center=np.array([0.1, -0.2, 0.3]), rotate=3)
        uni2 = UniformGrid(np.array([-0.5, 0.2]), np.array([[0.5, 0.1], [0.0, 0.4]]), np.array([2, 3]))
        g1 = Grid(rng.uniform(-1, 1, 4), rng.uniform(0.1, 1, 4))
        big1, big2 = Trapezoidal(90), GaussLegendre(80)
    lists = {
        "rule-x-rule": ([GaussLegendre(3), Trapezoidal(4)], (1, 1)),
        "atom-x-rule": ([atom, GaussLegendre(2)], (3, 1)),
        "rule-x-atom": ([GaussLegendre(2), atom], (1, 3)),
        "uniform2d-x-grid": ([uni2, g1], (2, 1)),
        "same-object-twice": ([g1, g1], (1, 1)),
        "same-object-three-times": ([g1, g1, g1], (1, 1, 1)),
        "above-default-chunk": ([big1, big2], (1, 1)),
    }
    grids, dims = lists[name]
    case = {"route": "extra", "list": name}

    def val(p, d):
        p = np.asarray(p, dtype=float)
        return p if d == 1 else p[..., 0] + 0.5 * p[..., -1]

    def f(*args):
        tot = 0.0
        for k, (a, d) in enumerate(zip(args, dims)):
            tot = tot + (k + 1) * val(a, d)
        return np.exp(-0.3 * tot * tot) + 0.2 * tot

    md = MultiDomainGrid(list(grids))
    ref, scale = reference(grids, f)
    total = int(np.prod([g.size for g in grids]))
    res.count()
    if int(md.size) != total:
        res.violation("other-domains:size", f"{name}: size {md.size}, expected {total}", case)
    routes = [("vectorised", dict(non_vectorized=False)), ("pointwise-default", dict(non_vectorized=True)),
              ("pointwise-chunk=7", dict(non_vectorized=True, integration_chunk_size=7)),
              ("pointwise-chunk=total", dict(non_vectorized=True, integration_chunk_size=total)),
              ("pointwise-chunk=total-1", dict(non_vectorized=True, integration_chunk_size=max(1, total - 1)))]
    for rname, kw in routes:
        res.count()
        try:
            got = float(md.integrate(f, **kw))
        except Exception as exc:
            res.violation(f"other-domains:{rname.split('=')[0]}:raised:{type(exc).__name__}", f"{name}: integrate({rname}) raised "
                          f"{type(exc).__name__}: {exc}", dict(case, route_name=rname))
            continue
        res.nontrivial()
        if not abs(got - ref) <= 1e-12 * scale + 1e-15:
            res.violation(f"other-domains:{rname.split('=')[0]}:differs-from-nested-sum", f"{name}: integrate({rname}) = {got!r}, nested "
                          f"sum over the product set {ref!r}", dict(case, route_name=rname), got=got, expected=ref)
    # homogeneity: the integral of 1e-18 f and of 1e15 f
    for sfac in (1e-18, 1e15):
        for kw in (dict(non_vectorized=False), dict(non_vectorized=True, integration_chunk_size=7)):
            res.count()
            got = float(md.integrate(lambda *a, sfac=sfac: sfac * f(*a), **kw)) / sfac
            if not abs(got - ref) <= 1e-12 * scale + 1e-15:
                res.violation("other-domains:homogeneity", f"{name}: integrate({sfac:g} f) / {sfac:g} = {got!r}, nested sum {ref!r}", case)
    if total <= 200:
        res.count()
        pts, ws = list(md.points), [float(v) for v in md.weights]
        ref_pts = list(itertools.product(*[list(g.points) for g in grids]))
        ref_w = [float(np.prod(c)) for c in itertools.product(*[list(g.weights) for g in grids])]
        if len(pts) != total or not all(all(np.array_equal(a, b) for a, b in zip(p, q)) for p, q in zip(pts, ref_pts)) \
                or not np.allclose(ws, ref_w, rtol=1e-14, atol=0):
            res.violation("other-domains:generators:wrong-product-set-or-order", f"{name}: enumerated points / weights are not the "
                          f"product set in order", case)
    return res.as_dict()


EXTRAS = ("rule-x-rule", "atom-x-rule", "rule-x-atom", "uniform2d-x-grid", "same-object-twice", "same-object-three-times",
          "above-default-chunk")


def _history_case(arg):
    """use the multi-domain grid, reassign a member grid's weights / points through the setters, use it again: every
    route and the enumerated points and weights answer for the member grids' CURRENT arrays (added after seeded change
    C18-F was missed: per-domain arrays looked up once and kept)."""
    mode, what, seed = arg
    from grid.basegrid import Grid
    from grid.ngrid import MultiDomainGrid

    res = WorkerResult(section="history")
    case = {"route": "history", "mode": mode, "what": what}
    rng = np.random.default_rng([seed, 181])
    g1 = Grid(rng.uniform(-1, 1, 3), rng.uniform(0.2, 1.0, 3))
    g2 = Grid(rng.uniform(-1, 1, 4), rng.uniform(0.2, 1.0, 4) * np.array([1, -0.5, 1, 1]))
    if mode == "repeated":
        grids = [g1, g1]
        md = MultiDomainGrid([g1], num_domains=2)
    else:
        grids = [g1, g2]
        md = MultiDomainGrid([g1, g2])
    f = lambda x, y: np.exp(-0.3 * (np.asarray(x) - 2 * np.asarray(y)) ** 2) + 0.2 * np.asarray(x)
    first_use = {"integrate": lambda: md.integrate(f), "pointwise": lambda: md.integrate(f, non_vectorized=True),
                 "weights": lambda: list(md.weights), "points": lambda: list(md.points), "size": lambda: md.size}
    for use in first_use:
        res.count()
        with warnings.catch_warnings():
            warnings.simplefilter("ignore")
            g1.weights = np.array([0.7, 0.4, 0.9])
            g1.points = np.array([-0.5, 0.1, 0.8])
            first_use[use]()
            if what == "weights":
                g1.weights = np.array([1.3, -0.2, 0.6])
            elif what == "points":
                g1.points = np.array([0.9, -0.7, 0.3])
            else:
                g1.weights *= 2.0
                g1.points += 0.1
            ref, scale = reference(grids, f)
            got_v = float(md.integrate(f))
            got_p = float(md.integrate(f, non_vectorized=True, integration_chunk_size=5))
            ws = [float(v) for v in md.weights]
            ps = list(md.points)
        ref_w = [float(np.prod(c)) for c in itertools.product(*[list(g.weights) for g in grids])]
        ref_p = list(itertools.product(*[list(g.points) for g in grids]))
        res.nontrivial()
        c2 = dict(case, first_use=use)
        if not abs(got_v - ref) <= 1e-12 * scale + 1e-15:
            res.violation("history:vectorised:answers-for-old-member-arrays", f"after {use}, reassigning {what} of a member grid and integrating "
                          f"again (vectorised): {got_v!r}, nested sum over the current arrays {ref!r}", c2)
        if not abs(got_p - ref) <= 1e-12 * scale + 1e-15:
            res.violation("history:pointwise:answers-for-old-member-arrays", f"after {use}, reassigning {what} of a member grid and integrating "
                          f"again (point by point): {got_p!r}, nested sum over the current arrays {ref!r}", c2)
        if not (np.allclose(ws, ref_w, rtol=1e-14, atol=0) and all(all(np.array_equal(a, b) for a, b in zip(p, q)) for p, q in zip(ps, ref_p))):
            res.violation("history:generators:answer-for-old-member-arrays", f"after {use} and reassigning {what}: enumerated points / weights "
                          f"are not the product set of the current member arrays", c2)
    return res.as_dict()


def configs(thorough):
    out = []
    for nd in (1, 2, 3):
        for sizes in itertools.product(SIZES + ((5,) if thorough else ()), repeat=nd):
            for pattern in PATTERNS:
                if pattern == "mixed" and nd == 1:
                    continue
                if not thorough and nd == 3 and max(sizes) == 4 and min(sizes) > 1 and pattern != "mixed":
                    continue  # quick: the largest 3-domain products only in the mixed pattern
                out.append((sizes, pattern, False))
    for nd in (1, 2, 3):
        for n in SIZES:
            for pattern in ("1d", "3d"):
                out.append(((n,) * nd, pattern, True))
    return out


def run(ctx):
    jobs = [(s, p, r, ctx.seed) for s, p, r in configs(ctx.thorough)]
    for res in lattice.pmap(_config, jobs, ctx.workers, chunksize=2):
        if len(ctx.samples) > 8:
            res["samples"] = []
        ctx.merge(res)
    for res in lattice.pmap(_extra, [(n, ctx.seed) for n in EXTRAS], ctx.workers):
        ctx.merge(res)
    hist = [(m, w, ctx.seed) for m in ("list", "repeated") for w in ("weights", "points", "augmented")]
    for res in lattice.pmap(_history_case, hist, ctx.workers):
        ctx.merge(res)
    # reported size of large products: the exact integer, also beyond 2**63 (nothing is enumerated here)
    from grid.ngrid import MultiDomainGrid
    from grid.onedgrid import GaussLegendre

    for npts, nd in ((40, 3), (40, 12), (16, 16), (150, 9), (7, 30)):
        ctx.count(section="size")
        with warnings.catch_warnings():
            warnings.simplefilter("ignore")
            md = MultiDomainGrid([GaussLegendre(npts)], num_domains=nd)
            ml = MultiDomainGrid([GaussLegendre(npts)] * min(nd, 6))
        ctx.nontrivial(("size", npts, nd), section="size")
        if int(md.size) != npts**nd or int(ml.size) != npts ** min(nd, 6):
            ctx.violation("size:not-the-number-of-combinations", f"MultiDomainGrid of {nd} x {npts} points reports size {md.size} "
                          f"(list of {min(nd, 6)}: {ml.size}); the product set has {npts**nd} ({npts ** min(nd, 6)}) elements",
                          {"route": "validation", "npts": npts, "domains": nd})
    # constructor validation

    g = make_grid(2, False, "v", ctx.seed)
    for bad in (dict(grid_list=None), dict(grid_list=[]), dict(grid_list=[g, 3]), dict(grid_list=[g, g], num_domains=2),
                dict(grid_list=[g], num_domains=0)):
        ctx.count(section="validation")
        try:
            MultiDomainGrid(**bad)
            ctx.violation("validation:invalid-arguments-accepted", f"MultiDomainGrid({bad}) accepted", {"route": "validation"})
        except ValueError:
            ctx.nontrivial(("validation", repr(sorted(bad))), section="validation")
    ctx.cov["configurations"] = len(jobs)
    ctx.exhaustive = True


def replay(ctx, case):
    if case.get("route") == "validation":
        return run(ctx)
    if case.get("route") == "history":
        return ctx.merge(_history_case((case["mode"], case["what"], ctx.seed)))
    if case.get("route") == "extra":
        return ctx.merge(_extra((case["list"], ctx.seed)))
    ctx.merge(_config((tuple(case["sizes"]), case["pattern"], case["repeated"], ctx.seed)))
