"""C16 -- Poisson solvers reproduce Coulomb potentials of Gaussian charges and are linear.

Engine E2: atomic grid (80 Legendre nodes, Becke map) x angular degree {7, 15} x density basis
{unit Gaussians alpha in {0.5, 1, 2}: centred (l = 0 only), displaced by 0.15 along z and along
(1,1,0)/sqrt 2 (populates l > 0)} x options {boundary None / analytic, include_origin on / off,
remove_large_pts default / None / 50, transform Inverse(Becke rmin = 0 | 1e-5), Identity on a
Laguerre grid} (deviation bound 1 quick, 2 thorough); linear combinations a rho1 + b rho2 for
(a,b) in {(1,1), (2,-0.5)}; initial-value solver for the centred densities;
interpolate_laplacian on the same basis; robust solver: density == fitted core model for every
element that ships parameters (exact cancellation => analytic result), core + smooth Gaussian,
split2 on/off; molecular grids (two centres 10 bohr and 1.4 bohr apart; thorough only).

Oracle: erf(sqrt(alpha) |r - c|)/|r - c| superposition (the s-type closed form is itself
decided by C17 against an independent Coulomb integral); |V - V_ref| <= 1e-3 (BVP) and <= 1e-2
(IVP) -- the accuracies the docstrings / tests advertise; linearity residual <= 1e-4.
Evaluation points: on axis, generic, near (0.05) and far (3-8) from the centre; exact centre
points are excluded (the BVP routine documents u(0) = 0 and returns 0 there).
"""

from __future__ import annotations

import itertools
import warnings

import numpy as np
from scipy.special import erf

from vf import lattice
from vf.cli import WorkerResult


def _gt(a, b):
    """a > b that is also True when a is NaN (a silent NaN must never pass a tolerance test)."""
    return ~(np.asarray(a) <= np.asarray(b))


LEVEL = "exploration"
RULE = (
    "product / deviation-bounded product of density basis x angular degree x solver options; "
    "one evaluation = one potential value compared with the analytic Coulomb potential; distinct "
    "non-trivial = distinct (solve configuration, evaluation point)"
)
ASSUMPTIONS = [
    "'documented accuracy' = 1e-3 absolute for the boundary-value solver and 1e-2 for the initial-value solver on unit charges",
    "densities are resolved by the grid: exponents 0.5..2, displacement 0.15 bohr, 80 radial nodes",
]

TOL_BVP, TOL_IVP, TOL_LIN = 1e-3, 1e-2, 1e-4
ALPHAS = (1.0, 0.5, 2.0)
DISPLACEMENTS = {"centred": np.zeros(3), "z": np.array([0.0, 0.0, 0.15]), "xy": np.array([0.15, 0.15, 0.0]) / np.sqrt(2)}
CENTRE = np.array([0.3, -0.2, 0.1])


def v_gauss(points, centre, alpha):
    d = np.linalg.norm(points - centre, axis=1)
    with np.errstate(divide="ignore", invalid="ignore"):
        v = erf(np.sqrt(alpha) * d) / d
    v[d < 1e-12] = 2 * np.sqrt(alpha / np.pi)
    return v


def rho_gauss(points, centre, alpha):
    return (alpha / np.pi) ** 1.5 * np.exp(-alpha * np.sum((points - centre) ** 2, axis=1))


def eval_points(seed):
    rng = np.random.default_rng([seed, 16])
    dirs = rng.normal(size=(5, 3))
    dirs /= np.linalg.norm(dirs, axis=1)[:, None]
    pts = [CENTRE + np.array([0.0, 0.0, 0.05]), CENTRE + np.array([0.0, 0.0, -0.8]), CENTRE + np.array([1.3, 0.0, 0.0])]
    pts += [CENTRE + d * r for d, r in zip(dirs, (0.05, 0.4, 1.1, 3.0, 8.0))]
    return np.array(pts)


def atomic_grid(degree, rmin=0.0, laguerre=False, rotate=0):
    from grid.atomgrid import AtomGrid
    from grid.onedgrid import GaussLaguerre, GaussLegendre
    from grid.rtransform import BeckeRTransform, IdentityRTransform, InverseRTransform

    with warnings.catch_warnings():
        warnings.simplefilter("ignore")
        if laguerre:
            rg = GaussLaguerre(100)
            tf = IdentityRTransform()
        else:
            btf = BeckeRTransform(rmin, 1.5)
            rg = btf.transform_1d_grid(GaussLegendre(80))
            tf = InverseRTransform(btf)
        if rotate == "pruned":
            # mixed per-shell degrees (what the pruned constructors produce): the harmonic basis is truncated per shell
            n = rg.size
            # inner third much coarser than the rest: degree 3 inside, degree + 4 in the middle, degree outside, so that
            # some shells have a degree below half of the largest one (seeded change C16-J)
            degs = [3 if i < n // 3 else (degree + 4 if i < 2 * n // 3 else degree) for i in range(n)]
            return AtomGrid(rg, degrees=degs, center=CENTRE, rotate=5), tf
        return AtomGrid(rg, degrees=[degree], center=CENTRE, rotate=rotate), tf


def _bvp_case(arg):
    degree, disp, alpha, opts, seed = arg
    from grid.poisson import solve_poisson_bvp

    res = WorkerResult(section="bvp")
    case = {"route": "bvp", "degree": degree, "displacement": disp, "alpha": alpha, "options": opts}
    boundary_kind, include_origin, remove, tfkind = opts[:4]
    # a fifth entry is a rotation seed of the atomic grid (added after seeded change C16-F: the harmonic projection
    # ignoring the per-shell rotation, visible only for densities with l > 0 content on a rotated grid)
    rot = (opts[4] if opts[4] == "pruned" else int(opts[4])) if len(opts) > 4 else 0
    g, tf = atomic_grid(degree, rmin=1e-5 if tfkind == "becke-1e-5" else 0.0, laguerre=tfkind == "laguerre", rotate=rot)
    c = CENTRE + DISPLACEMENTS[disp]
    a = alpha * (1 + lattice.jitter(seed, f"a{alpha}", 0.0, 0.05))
    rho = rho_gauss(g.points, c, a)
    q = eval_points(seed)
    if tfkind == "laguerre":
        q = q[np.linalg.norm(q - CENTRE, axis=1) < 5]
    elif include_origin:
        # "at arbitrary points": also points very close to (not on) the grid centre, on both sides of every "is zero"
        # threshold one might use for r (added after seeded change C16-G: np.isclose(r, 0) zeroed u/r within 1e-8 bohr)
        d = np.array([0.6, -0.48, 0.64])
        q = np.vstack([q, CENTRE + np.outer([1e-3, 1e-6, 5e-9, 2e-10, 1e-12], d)])
    boundary = None if boundary_kind == "none" else float(1.0 * np.sqrt(4 * np.pi))
    snap = rho.copy()
    res.count()
    if not include_origin and tfkind == "laguerre":
        # without the added r = 0 node the lower boundary condition sits on the first radial node r_0 and leaves an
        # error ~ V(0) r_0 / r (documented as the caller's responsibility): GaussLaguerre(100) has r_0 = 0.0144, so
        # no evaluation point closer than 16 bohr could be held to the tolerance.  (False alarm of the thorough tier,
        # corrected: the Becke grids have r_0 < 1e-4.)
        res.inadm()
        return res.as_dict()
    np.random.seed(seed)
    try:
        with warnings.catch_warnings():
            warnings.simplefilter("ignore")
            with np.errstate(all="ignore"):
                pot = solve_poisson_bvp(g, rho, tf, boundary=boundary, include_origin=include_origin,
                                        remove_large_pts={"default": 1e6, "none": None, "50": 50.0}[remove])
                got = np.asarray(pot(q), dtype=float)
                # the potential is a function of the CONTENTS of the array it is given (lesson of seeded change C15-J): a work
                # array evaluated, refilled in place with the points in another order, evaluated again
                perm = np.arange(len(q))[::-1]
                buf = q.copy()
                pot(buf)
                buf[...] = q[perm]
                got_refill = np.asarray(pot(buf), dtype=float)
    except Exception as exc:
        res.violation(f"bvp:raised:{type(exc).__name__}", f"{case}: {type(exc).__name__}: {exc}", case)
        return res.as_dict()
    if got_refill.shape != got.shape or _gt(np.max(np.abs(got_refill - got[perm])), 1e-10 * (1 + np.max(np.abs(got[np.isfinite(got)]), initial=0.0))):
        res.violation("bvp:callable-stale-after-points-refilled-in-place", f"{case}: the returned potential evaluated on a work array that was refilled "
                      f"in place differs from its values at those points", case)
    if not np.array_equal(rho, snap):
        res.violation("bvp:argument-modified", "density values were modified", case)
    ref = v_gauss(q, c, a)
    if not include_origin:
        # documented: without the added r = 0 node the lower boundary condition sits on the first
        # radial node and the accuracy near the centre is the caller's responsibility
        keep = np.linalg.norm(q - CENTRE, axis=1) >= 1.0
        q, got, ref = q[keep], got[keep], ref[keep]
    err = np.abs(got - ref)
    res.count(len(q))
    res.nontrivial(n=len(q))
    if np.any(~np.isfinite(got)) or _gt(err.max(), TOL_BVP):
        i = int(np.nanargmax(err)) if np.any(np.isfinite(err)) else 0
        res.violation(f"bvp:potential-differs-from-analytic:{'centred' if disp == 'centred' else 'displaced'}",
                      f"{case}: V at {np.round(q[i] - CENTRE, 3).tolist()} (relative to the centre) = {got[i]!r}, analytic {ref[i]!r} "
                      f"(error {err[i]:.2e} > {TOL_BVP})", case, error=float(err[i]))
    else:
        res.maximum(f"bvp_err:{disp}:deg{degree}", float(err.max()))
    res.sample(case)
    return res.as_dict()


def _stale_on_refill(pot, q, got):
    """The potential is a function of the CONTENTS of the array it is given (lesson of seeded changes C15-J / C16-L): a work
    array evaluated, refilled in place with the same points in reversed order, evaluated again.  Returns the deviation."""
    perm = np.arange(len(q))[::-1]
    buf = np.array(q, dtype=float, copy=True)
    pot(buf)
    buf[...] = np.asarray(q)[perm]
    again = np.asarray(pot(buf), dtype=float)
    got = np.asarray(got, dtype=float)
    if again.shape != got.shape:
        return np.inf
    fin = np.isfinite(got[perm])
    return float(np.max(np.abs(again[fin] - got[perm][fin]), initial=0.0)) if np.all(np.isfinite(again[fin])) else np.inf


def _charge_case(arg):
    """Densities whose total charge is zero, negative or small: the computed boundary value q / r and the large-r behaviour
    must follow the sign and size of q (every other analytic case has q = +1)."""
    kind, seed = arg
    from grid.poisson import solve_poisson_bvp

    res = WorkerResult(section="bvp:charge")
    case = {"route": "charge", "kind": kind}
    g, tf = atomic_grid(7, rotate=5)
    c1, c2 = CENTRE + DISPLACEMENTS["z"], CENTRE - DISPLACEMENTS["z"]
    terms = {"neutral": [(1.0, c1, 1.0), (-1.0, c2, 1.5)], "negative": [(-1.0, c1, 1.0), (-0.5, CENTRE, 2.0)],
             "small": [(1.0, c1, 1.0), (-0.97, c2, 1.0)]}[kind]
    rho = sum(q * rho_gauss(g.points, c, a) for q, c, a in terms)
    pts = eval_points(seed)
    ref = sum(q * v_gauss(pts, c, a) for q, c, a in terms)
    res.count(len(pts))
    np.random.seed(seed)
    try:
        with warnings.catch_warnings():
            warnings.simplefilter("ignore")
            with np.errstate(all="ignore"):
                got = np.asarray(solve_poisson_bvp(g, rho, tf)(pts), dtype=float)
    except Exception as exc:
        res.violation(f"bvp:charge:{kind}:raised:{type(exc).__name__}", f"{case}: {type(exc).__name__}: {exc}", case)
        return res.as_dict()
    res.nontrivial(n=len(pts))
    err = np.abs(got - ref)
    if np.any(~np.isfinite(got)) or _gt(err.max(), TOL_BVP):
        i = int(np.nanargmax(err))
        res.violation(f"bvp:charge:{kind}:potential-differs-from-analytic", f"{case}: V at {np.round(pts[i] - CENTRE, 3).tolist()} = {got[i]!r}, "
                      f"analytic {ref[i]!r} (error {err[i]:.2e} > {TOL_BVP})", case)
    else:
        res.maximum(f"bvp_err:charge:{kind}", float(err.max()))
    return res.as_dict()


def _linearity_case(arg):
    degree, seed = arg
    from grid.poisson import solve_poisson_bvp

    res = WorkerResult(section="linearity")
    g, tf = atomic_grid(degree)
    q = eval_points(seed)
    r1 = rho_gauss(g.points, CENTRE, 1.0)
    r2 = rho_gauss(g.points, CENTRE + DISPLACEMENTS["z"], 2.0)
    with warnings.catch_warnings():
        warnings.simplefilter("ignore")
        with np.errstate(all="ignore"):
            np.random.seed(seed)
            v1 = solve_poisson_bvp(g, r1, tf)(q)
            v2 = solve_poisson_bvp(g, r2, tf)(q)
            for a, b in ((1.0, 1.0), (2.0, -0.5)):
                res.count(len(q))
                case = {"route": "linearity", "degree": degree, "a": a, "b": b}
                v = solve_poisson_bvp(g, a * r1 + b * r2, tf)(q)
                res.nontrivial(n=len(q))
                dev = float(np.max(np.abs(v - (a * v1 + b * v2))))
                if dev > TOL_LIN:
                    res.violation("bvp:not-linear-in-the-density", f"V[{a} rho1 + {b} rho2] differs from {a} V1 + {b} V2 by {dev:.2e}", case)
                else:
                    res.maximum("linearity_residual", dev)
            # homogeneity over many orders of magnitude (added after seeded change C16-C was missed: an absolute
            # "this channel is zero" threshold): V[s rho] = s V[rho] for a density WITH anisotropic content
            for s in (1e-4, 1e-7, 1e-10, 1e5):
                res.count(len(q))
                case = {"route": "linearity", "degree": degree, "a": s, "b": s}
                v = np.asarray(solve_poisson_bvp(g, s * (r1 + r2), tf)(q), dtype=float) / s
                res.nontrivial(n=len(q))
                dev = float(np.max(np.abs(v - (v1 + v2))))
                if _gt(dev, TOL_LIN):
                    res.violation("bvp:not-homogeneous-in-the-density", f"V[s rho] / s differs from V[rho] by {dev:.2e} for s = {s:g}", case)
                else:
                    res.maximum("homogeneity_residual", dev)
    return res.as_dict()


def _ivp_case(arg):
    alpha, seed = arg[0], arg[1]
    r_start = arg[2] if len(arg) > 2 else 1000.0
    from grid.atomgrid import AtomGrid
    from grid.onedgrid import Trapezoidal
    from grid.poisson import solve_poisson_ivp
    from grid.rtransform import InverseRTransform, LinearFiniteRTransform

    res = WorkerResult(section="ivp")
    case = {"route": "ivp", "alpha": alpha, "r_start": r_start}
    with warnings.catch_warnings():
        warnings.simplefilter("ignore")
        btf = LinearFiniteRTransform(1e-3, 1000.0)
        rg = btf.transform_1d_grid(Trapezoidal(10000))  # the radial resolution the suite itself uses for this solver
        g = AtomGrid(rg, degrees=[5], center=CENTRE)
    rho = rho_gauss(g.points, CENTRE, alpha)
    q = eval_points(seed)
    q = q[np.linalg.norm(q - CENTRE, axis=1) < 0.5 * r_start]
    res.count()
    try:
        with warnings.catch_warnings():
            warnings.simplefilter("ignore")
            with np.errstate(all="ignore"):
                # r_start < outermost radial node is legal: the asymptotic condition V = q/r is imposed there
                pot = solve_poisson_ivp(g, rho, InverseRTransform(btf), r_interval=(r_start, 1e-3))
                got = np.asarray(pot(q), dtype=float)
                stale = _stale_on_refill(pot, q, got)
    except Exception as exc:
        res.violation(f"ivp:raised:{type(exc).__name__}", f"{case}: {exc}", case)
        return res.as_dict()
    if _gt(stale, 1e-10 * (1 + np.max(np.abs(got[np.isfinite(got)]), initial=0.0))):
        res.violation("ivp:callable-stale-after-points-refilled-in-place", f"{case}: potential on a refilled work array deviates by {stale:.2e}", case)
    ref = v_gauss(q, CENTRE, alpha)
    err = np.abs(got - ref)
    res.count(len(q))
    res.nontrivial(n=len(q))
    if np.any(~np.isfinite(got)) or _gt(err.max(), TOL_IVP):
        res.violation("ivp:potential-differs-from-analytic", f"{case}: max error {np.nanmax(err):.2e} > {TOL_IVP}", case)
    else:
        res.maximum("ivp_err", float(err.max()))
    return res.as_dict()


def _ivp_variant_case(arg):
    """Further routes of the initial-value solver: the default integration interval, tight solver tolerances (the error
    must then fall well below the default accuracy), another radial grid / transformation, and scaling of the density."""
    variant, seed = arg
    from grid.atomgrid import AtomGrid
    from grid.onedgrid import GaussLegendre, Trapezoidal
    from grid.poisson import solve_poisson_ivp
    from grid.rtransform import BeckeRTransform, InverseRTransform, LinearFiniteRTransform

    res = WorkerResult(section="ivp")
    case = {"route": "ivp-variant", "variant": variant}
    spec = {
        "default-interval": (LinearFiniteRTransform(1e-5, 1000.0), Trapezoidal(10000), {}, 1.5e-2, 2e-3),
        "tight-tolerances": (LinearFiniteRTransform(1e-3, 1000.0), Trapezoidal(10000),
                             {"r_interval": (1000.0, 1e-3), "ode_params": {"rtol": 1e-10, "atol": 1e-10}}, 1e-3, 1e-4),
        "becke-gl200": (BeckeRTransform(1e-5, 1.5), GaussLegendre(200), {"r_interval": (500.0, 1e-4)}, 5e-3, 1e-2),
    }[variant]
    btf, rule, kw, tol, tol_lin = spec
    with warnings.catch_warnings():
        warnings.simplefilter("ignore")
        g = AtomGrid(btf.transform_1d_grid(rule), degrees=[5], center=CENTRE, rotate=3)
    a = 1.0 * (1 + lattice.jitter(seed, "ivpv", 0.0, 0.05))
    rho = rho_gauss(g.points, CENTRE, a)
    q = eval_points(seed)
    q = q[np.linalg.norm(q - CENTRE, axis=1) < 100.0]
    params = kw.get("ode_params")
    snap = None if params is None else dict(params)
    res.count(2 * len(q))
    try:
        with warnings.catch_warnings():
            warnings.simplefilter("ignore")
            with np.errstate(all="ignore"):
                v1 = np.asarray(solve_poisson_ivp(g, rho, InverseRTransform(btf), **kw)(q), dtype=float)
                v3 = np.asarray(solve_poisson_ivp(g, -2.5 * rho, InverseRTransform(btf), **kw)(q), dtype=float)
    except Exception as exc:
        res.violation(f"ivp:{variant}:raised:{type(exc).__name__}", f"{case}: {exc}", case)
        return res.as_dict()
    if params is not None and params != snap:
        res.violation("ivp:ode_params-modified", "the caller's ode_params dictionary was modified", case)
    ref = v_gauss(q, CENTRE, a)
    res.nontrivial(n=len(q))
    err = float(np.max(np.abs(v1 - ref)))
    lin = float(np.max(np.abs(v3 + 2.5 * v1)))
    if not np.all(np.isfinite(v1)) or _gt(err, tol):
        res.violation(f"ivp:{variant}:potential-differs-from-analytic", f"{case}: max error {err:.2e} > {tol:g}", case)
    else:
        res.maximum(f"ivp_err:{variant}", err)
    if _gt(lin, tol_lin):
        res.violation(f"ivp:{variant}:not-linear-in-the-density", f"{case}: V[-2.5 rho] + 2.5 V[rho] = {lin:.2e} > {tol_lin:g}", case)
    else:
        res.maximum(f"ivp_lin:{variant}", lin)
    return res.as_dict()


def _laplacian_case(arg):
    disp, alpha, seed = arg
    from grid.poisson import interpolate_laplacian

    res = WorkerResult(section="laplacian")
    case = {"route": "laplacian", "displacement": disp, "alpha": alpha}
    g, _ = atomic_grid(15, rmin=1e-4)
    c = CENTRE + DISPLACEMENTS[disp]
    f = rho_gauss(g.points, c, alpha)
    q = eval_points(seed)
    q = q[(np.linalg.norm(q - CENTRE, axis=1) > 0.3) & (np.linalg.norm(q - CENTRE, axis=1) < 4)]
    res.count(len(q))
    try:
        with warnings.catch_warnings():
            warnings.simplefilter("ignore")
            with np.errstate(all="ignore"):
                got = np.asarray(interpolate_laplacian(g, f)(q), dtype=float)
    except Exception as exc:
        res.violation(f"laplacian:raised:{type(exc).__name__}", f"{case}: {exc}", case)
        return res.as_dict()
    d2 = np.sum((q - c) ** 2, axis=1)
    ref = (alpha / np.pi) ** 1.5 * (4 * alpha**2 * d2 - 6 * alpha) * np.exp(-alpha * d2)
    res.nontrivial(n=len(q))
    scale = (alpha / np.pi) ** 1.5 * 6 * alpha
    err = np.abs(got - ref)
    if _gt(err.max(), 2e-2 * scale):
        res.violation("laplacian:differs-from-analytic", f"{case}: max error {err.max():.2e} (scale {scale:.2e})", case)
    else:
        res.maximum("laplacian_rel_err", float(err.max() / scale))
    return res.as_dict()


def _robust_case(arg):
    kind, z, split2, seed = arg
    from grid.coulomb import coulomb_potential, load_atomic_gaussian_params
    from grid.robust_poisson import solve_poisson_robust

    res = WorkerResult(section=f"robust:{kind}")
    case = {"route": "robust", "kind": kind, "z": z, "split2": split2}
    g, tf = atomic_grid(7)
    try:
        cs, al = load_atomic_gaussian_params(int(z))
    except ValueError:
        res.inadm()
        return res.as_dict()
    core = np.zeros(g.size)
    for c, a in zip(cs, al):
        core += c * rho_gauss(g.points, CENTRE, a)
    q = eval_points(seed)
    vcore = coulomb_potential(q, np.tile(CENTRE, (len(cs), 1)), cs, al)
    extra_a = 0.8
    dens = core + (rho_gauss(g.points, CENTRE, extra_a) if kind == "core+smooth" else 0.0)
    ref = vcore + (v_gauss(q, CENTRE, extra_a) if kind == "core+smooth" else 0.0)
    if kind == "smooth":
        # a smooth density without any core: the residual handed to the numerical solver is (density - core model)
        dens = rho_gauss(g.points, CENTRE, extra_a)
        ref = v_gauss(q, CENTRE, extra_a)
    snap = dens.copy()
    res.count(len(q))
    try:
        with warnings.catch_warnings():
            warnings.simplefilter("ignore")
            with np.errstate(all="ignore"):
                np.random.seed(seed)
                pot = solve_poisson_robust(g, dens, tf, np.array([z]), CENTRE[None, :], split2=split2)
                got = np.asarray(pot(q), dtype=float)
                stale = _stale_on_refill(pot, q, got)
    except Exception as exc:
        res.violation(f"robust:raised:{type(exc).__name__}", f"{case}: {type(exc).__name__}: {exc}", case)
        return res.as_dict()
    if _gt(stale, 1e-10 * (1 + np.max(np.abs(got[np.isfinite(got)]), initial=0.0))):
        res.violation("robust:callable-stale-after-points-refilled-in-place", f"{case}: potential on a refilled work array deviates by {stale:.2e}", case)
    if not np.array_equal(dens, snap):
        res.violation("robust:argument-modified", "density values were modified", case)
    res.nontrivial(n=len(q))
    err = np.abs(got - ref)
    tol = 1e-9 * (1 + np.abs(ref)) if kind == "core" else TOL_BVP * (1 + 0 * ref)
    if np.any(~np.isfinite(got)) or np.any(_gt(err, tol)):
        res.violation(f"robust:{kind}:differs-from-analytic", f"{case}: max error {np.nanmax(err):.2e} "
                      f"({'exact cancellation expected' if kind == 'core' else 'tolerance 1e-3'})", case)
    else:
        res.maximum(f"robust_err:{kind}", float(err.max()))
    if kind == "smooth":
        # "agrees with the plain solver on smooth densities"
        from grid.poisson import solve_poisson_bvp

        res.count(len(q))
        with warnings.catch_warnings():
            warnings.simplefilter("ignore")
            with np.errstate(all="ignore"):
                np.random.seed(seed)
                plain = np.asarray(solve_poisson_bvp(g, dens, tf)(q), dtype=float)
        dev = float(np.max(np.abs(plain - got)))
        if _gt(dev, 2 * TOL_BVP):
            res.violation("robust:smooth:differs-from-plain-solver", f"{case}: robust and plain solver differ by {dev:.2e} on a smooth density", case)
        else:
            res.maximum("robust_vs_plain", dev)
    return res.as_dict()


def _robust2_case(arg):
    """Robust solver on a TWO-centre molecular grid with the second split (added after seeded change
    C16-B was missed): the density is the fitted core models plus a few normalised Gaussians whose
    exponents are in ``alphas_basis``; the non-negative fit removes them, the numerical residual is
    ~0 and the result must be the analytic potential of all Gaussians."""
    split2, dist, seed = arg[:3]
    # molecules with REPEATED elements (added after seeded change C16-E was missed: per-element bookkeeping that is a
    # bijection only while the number of equal atoms and the number of fitted Gaussians are coprime)
    mol = arg[3] if len(arg) > 3 else "CH"
    from grid.atomgrid import AtomGrid
    from grid.becke import BeckeWeights
    from grid.coulomb import load_atomic_gaussian_params
    from grid.molgrid import MolGrid
    from grid.onedgrid import GaussLegendre
    from grid.rtransform import BeckeRTransform, InverseRTransform
    from grid.robust_poisson import solve_poisson_robust

    res = WorkerResult(section="robust:two-centres")
    case = {"route": "robust2", "split2": split2, "distance": dist, "molecule": mol}
    atnums = np.array({"CH": [6, 1], "OO": [8, 8], "ClCl": [17, 17], "OCO": [8, 6, 8], "CCC": [6, 6, 6], "HOHO": [1, 8, 1, 8]}[mol])
    n_at = len(atnums)
    coords = np.array([[0.03 * k * k, 0.1 * (k % 2), -dist / 2 + dist * k / (n_at - 1)] for k in range(n_at)])
    basis = np.array([0.5, 1.5, 4.0])
    with warnings.catch_warnings():
        warnings.simplefilter("ignore")
        btf = BeckeRTransform(1e-4, 1.5)
        rg = btf.transform_1d_grid(GaussLegendre(60))
        mg = MolGrid(atnums, [AtomGrid(rg, degrees=[7], center=c) for c in coords], BeckeWeights(order=3), store=True)
        terms = []
        for z, cen in zip(atnums, coords):
            cs, al = load_atomic_gaussian_params(int(z))
            terms += [(c, a, cen) for c, a in zip(cs, al)]
        extra = [(0.8, 0.5, coords[0]), (0.4, 4.0, coords[0]), (0.6, 1.5, coords[1]), (0.3, 1.5, coords[-1])] if split2 else []
        terms += extra
        rng = np.random.default_rng([seed, 162])
        q = np.vstack([cen + rng.normal(size=(12, 3)) * 1.2 for cen in coords])
        dens = sum(c * rho_gauss(mg.points, cen, a) for c, a, cen in terms)
        ref = sum(c * v_gauss(q, cen, a) for c, a, cen in terms)
        res.count(len(q))
        try:
            with np.errstate(all="ignore"):
                np.random.seed(seed)
                pot = solve_poisson_robust(mg, dens, InverseRTransform(btf), atnums=atnums, atcoords=coords, split2=split2,
                                           alphas_basis=basis if split2 else None)
                got = np.asarray(pot(q), dtype=float)
                stale = _stale_on_refill(pot, q, got)
        except Exception as exc:
            res.violation(f"robust2:raised:{type(exc).__name__}", f"{case}: {type(exc).__name__}: {exc}", case)
            return res.as_dict()
    if _gt(stale, 1e-10 * (1 + np.max(np.abs(got[np.isfinite(got)]), initial=0.0))):
        res.violation("robust2:callable-stale-after-points-refilled-in-place", f"{case}: potential on a refilled work array deviates by {stale:.2e}", case)
    res.nontrivial(n=len(q))
    err = np.abs(got - ref)
    if np.any(~np.isfinite(got)) or _gt(err.max(), 1e-5):
        res.violation("robust2:two-centres:differs-from-analytic", f"{case}: robust solver on a two-centre grid deviates from the analytic "
                      f"potential of its Gaussians by {np.nanmax(err):.2e} (exact cancellation expected, 1e-5 allowed)", case)
    else:
        res.maximum("robust2_err", float(err.max()))
    return res.as_dict()


def _robust3_case(arg):
    """Robust solver on a two-atom molecular grid with a residual that carries net charge (core models plus smooth Gaussians)
    and with options forwarded to the boundary-value solver (removal of large radii, origin node): the result is the
    analytic potential of all Gaussians (added after seeded change C16-I: one far-field boundary value for every atom)."""
    variant, seed = arg
    from grid.atomgrid import AtomGrid
    from grid.becke import BeckeWeights
    from grid.coulomb import load_atomic_gaussian_params
    from grid.molgrid import MolGrid
    from grid.onedgrid import GaussLegendre
    from grid.rtransform import BeckeRTransform, InverseRTransform
    from grid.robust_poisson import solve_poisson_robust

    res = WorkerResult(section="robust:charged-residual")
    case = {"route": "robust3", "variant": variant}
    kw = {"default": {}, "remove-10": {"remove_large_pts": 10.0}, "remove-10-origin-off": {"remove_large_pts": 10.0, "include_origin": False}}[variant]
    atnums = np.array([1, 1])
    coords = np.array([[0.0, 0.0, -0.7], [0.05, 0.0, 0.75]])
    with warnings.catch_warnings():
        warnings.simplefilter("ignore")
        btf = BeckeRTransform(1e-5, 1.5)
        rg = btf.transform_1d_grid(GaussLegendre(70))
        mg = MolGrid(atnums, [AtomGrid(rg, degrees=[9], center=c, rotate=k * 5) for k, c in enumerate(coords)], BeckeWeights(order=3), store=True)
        terms = []
        for z, cen in zip(atnums, coords):
            cs, al = load_atomic_gaussian_params(int(z))
            terms += [(c, a, cen) for c, a in zip(cs, al)]
        terms += [(0.7, 0.6, coords[0]), (0.4, 0.9, coords[1])]
        rng = np.random.default_rng([seed, 163])
        q = np.vstack([cen + rng.normal(size=(8, 3)) * 1.0 for cen in coords])
        if "origin-off" in variant:
            q = q[np.min(np.linalg.norm(q[:, None, :] - coords[None], axis=2), axis=1) > 1.0]
        dens = sum(c * rho_gauss(mg.points, cen, a) for c, a, cen in terms)
        ref = sum(c * v_gauss(q, cen, a) for c, a, cen in terms)
        res.count(len(q))
        try:
            with np.errstate(all="ignore"):
                np.random.seed(seed)
                got = np.asarray(solve_poisson_robust(mg, dens, InverseRTransform(btf), atnums=atnums, atcoords=coords, **kw)(q), dtype=float)
        except Exception as exc:
            res.violation(f"robust3:raised:{type(exc).__name__}", f"{case}: {type(exc).__name__}: {exc}", case)
            return res.as_dict()
    res.nontrivial(n=len(q))
    err = np.abs(got - ref)
    if np.any(~np.isfinite(got)) or _gt(err.max(), 5 * TOL_BVP):
        res.violation("robust3:charged-residual:differs-from-analytic", f"{case}: robust solver on a two-atom grid with a charged residual "
                      f"deviates from the analytic potential by {np.nanmax(err):.2e} (allowed {5 * TOL_BVP:g})", case)
    else:
        res.maximum(f"robust3_err:{variant}", float(err.max()))
    return res.as_dict()


def _mol_case(arg):
    dist, seed = arg[:2]
    # the documented accuracy knob of the radial boundary-value solves; with the default 1e-6 the solver gives up
    # ("didn't converge") on the far atom's density of a stretched molecule -- an explicit refusal, not an answer
    tol = arg[2] if len(arg) > 2 else None
    from grid.atomgrid import AtomGrid
    from grid.becke import BeckeWeights
    from grid.molgrid import MolGrid
    from grid.onedgrid import GaussLegendre
    from grid.poisson import solve_poisson_bvp
    from grid.rtransform import BeckeRTransform, InverseRTransform

    res = WorkerResult(section="molecular")
    case = {"route": "molecular", "distance": dist, "tol": tol}
    with warnings.catch_warnings():
        warnings.simplefilter("ignore")
        btf = BeckeRTransform(0.0, 1.5)
        rg = btf.transform_1d_grid(GaussLegendre(70))
        coords = np.array([[0.0, 0.0, -dist / 2], [0.0, 0.0, dist / 2]])
        ats = [AtomGrid(rg, degrees=[25 if dist < 3 else 11], center=c, rotate=37 if dist == 4.0 else 0) for c in coords]
        mg = MolGrid(np.array([1, 1]), ats, BeckeWeights(order=3), store=True)
        rho = 1.0 * rho_gauss(mg.points, coords[0], 1.0) + 0.5 * rho_gauss(mg.points, coords[1], 2.0)
        q = np.array([[0.0, 0.0, 0.0], [0.3, 0.1, dist / 2 + 0.4], [1.0, -0.7, -dist / 2], [2.0, 2.0, 1.0], [0.0, 0.0, dist / 2 + 0.05]])
        res.count(len(q))
        try:
            with np.errstate(all="ignore"):
                np.random.seed(seed)
                opt = {} if tol is None else {"ode_params": {"tol": tol}}
                got = np.asarray(solve_poisson_bvp(mg, rho, InverseRTransform(btf), **opt)(q), dtype=float)
        except Exception as exc:
            res.violation(f"molecular:raised:{type(exc).__name__}", f"{case}: {exc}", case)
            return res.as_dict()
    ref = v_gauss(q, coords[0], 1.0) + 0.5 * v_gauss(q, coords[1], 2.0)
    res.nontrivial(n=len(q))
    err = np.abs(got - ref)
    if np.any(~np.isfinite(got)) or _gt(err.max(), 5 * TOL_BVP):
        res.violation("molecular:potential-differs-from-analytic", f"{case}: max error {np.nanmax(err):.2e}", case)
    else:
        res.maximum(f"molecular_err:{dist}", float(err.max()))
    return res.as_dict()


OPT_ALPHABET = [("none", "analytic"), (True, False), ("default", "none", "50"), ("becke-0", "becke-1e-5", "laguerre")]


def run(ctx):
    jobs = []
    opts = list(lattice.deviations(OPT_ALPHABET, 2 if ctx.thorough else 1))
    for disp in DISPLACEMENTS:
        for alpha in ALPHAS:
            for degree in (7, 15):
                if degree == 15 and not (ctx.thorough or (disp == "xy" and alpha == 1.0)):
                    continue
                for k, o in enumerate(opts):
                    if k and not (ctx.thorough or (alpha == 1.0 and degree == 7)):
                        continue
                    if o[3] == "laguerre" and disp != "centred":
                        continue
                    jobs.append(("bvp", (degree, disp, alpha, tuple(o), ctx.seed)))
    for disp in DISPLACEMENTS:
        for rot in (11, 37) if ctx.thorough else (11,):
            jobs.append(("bvp", (7, disp, 1.0, tuple(opts[0]) + (rot,), ctx.seed)))
    if ctx.thorough:
        jobs.append(("bvp", (7, "xy", 1.0, tuple(opts[0]) + ("pruned",), ctx.seed)))
    jobs.append(("bvp", (7, "centred", 1.0, tuple(opts[0]) + ("pruned",), ctx.seed)))
    for kind in ("neutral", "negative") + (("small",) if ctx.thorough else ()):
        jobs.append(("chg", (kind, ctx.seed)))
    jobs.append(("lin", (7, ctx.seed)))
    if ctx.thorough:
        jobs.append(("lin", (15, ctx.seed)))
    for alpha in ALPHAS:
        jobs.append(("ivp", (alpha, ctx.seed)))
    jobs.append(("ivp", (1.0, ctx.seed, 200.0)))   # integration starts inside the radial grid
    for variant in ("default-interval", "tight-tolerances", "becke-gl200"):
        jobs.append(("ivpv", (variant, ctx.seed)))
    jobs.append(("rob2", (True, 8.0, ctx.seed)))
    jobs.append(("rob2", (False, 8.0, ctx.seed)))
    for variant in ("remove-10-origin-off",) + (("remove-10",) if ctx.thorough else ()):
        jobs.append(("rob3", (variant, ctx.seed)))
    for mol in ("OO", "OCO", "CCC") + (("ClCl", "HOHO") if ctx.thorough else ()):
        jobs.append(("rob2", (mol == "OO", 8.0, ctx.seed, mol)))
    for disp in DISPLACEMENTS:
        for alpha in ALPHAS[: 3 if ctx.thorough else 1]:
            jobs.append(("lap", (disp, alpha, ctx.seed)))
    zs = list(range(1, 37)) if ctx.thorough else [1, 6, 8, 17, 26]
    for z in zs:
        jobs.append(("rob", ("core", z, False, ctx.seed)))
    for z in (1, 8):
        for split2 in (False, True):
            jobs.append(("rob", ("core+smooth", z, split2, ctx.seed)))
        jobs.append(("rob", ("smooth", z, z == 8, ctx.seed)))
    jobs += [("mol", (10.0, ctx.seed, 1e-3)), ("mol", (4.0, ctx.seed, 1e-3))]
    if ctx.thorough:
        jobs += [("mol", (1.4, ctx.seed)), ("mol", (1.4, ctx.seed, 1e-3)), ("mol", (2.5, ctx.seed, 1e-3))]
    jobs.sort(key=lambda j: {"rob3": 1, "chg": 2, "ivpv": 1, "mol": 0, "bvp": 1 if j[1][0] == 15 else 3, "lin": 1, "ivp": 2, "lap": 3, "rob": 4, "rob2": 2}[j[0]])
    for res in lattice.pmap_unordered(_dispatch, jobs, ctx.workers):
        if len(ctx.samples) > 8:
            res["samples"] = []
        ctx.merge(res)
    ctx.cov["solve_configurations"] = len(jobs)
    ctx.cov["tolerances"] = {"bvp": TOL_BVP, "ivp": TOL_IVP, "linearity": TOL_LIN}
    ctx.exhaustive = True


def _dispatch(job):
    kind, arg = job
    return {"bvp": _bvp_case, "lin": _linearity_case, "ivp": _ivp_case, "lap": _laplacian_case, "rob": _robust_case,
            "mol": _mol_case, "rob2": _robust2_case, "ivpv": _ivp_variant_case, "chg": _charge_case, "rob3": _robust3_case}[kind](arg)


def replay(ctx, case):
    r = case["route"]
    if r == "bvp":
        ctx.merge(_bvp_case((case["degree"], case["displacement"], case["alpha"], tuple(case["options"]), ctx.seed)))
    elif r == "linearity":
        ctx.merge(_linearity_case((case["degree"], ctx.seed)))
    elif r == "robust3":
        ctx.merge(_robust3_case((case["variant"], ctx.seed)))
    elif r == "charge":
        ctx.merge(_charge_case((case["kind"], ctx.seed)))
    elif r == "ivp-variant":
        ctx.merge(_ivp_variant_case((case["variant"], ctx.seed)))
    elif r == "ivp":
        ctx.merge(_ivp_case((case["alpha"], ctx.seed, case.get("r_start", 1000.0))))
    elif r == "robust2":
        ctx.merge(_robust2_case((case["split2"], case["distance"], ctx.seed, case.get("molecule", "CH"))))
    elif r == "laplacian":
        ctx.merge(_laplacian_case((case["displacement"], case["alpha"], ctx.seed)))
    elif r == "robust":
        ctx.merge(_robust_case((case["kind"], case["z"], case["split2"], ctx.seed)))
    else:
        ctx.merge(_mol_case((case["distance"], ctx.seed, case.get("tol"))))
