"""C02 -- every shipped angular grid is exact to its advertised degree.

Space (complete in the thorough tier): every (method, degree, size) entry of the four tables
(450 grids) x every real spherical harmonic (l, m) with l <= degree.  The quick tier takes every
grid too, with every l <= degree for the grids whose cost size*(degree+1)^2 is below a cap and
l <= L_QUICK for the (large) rest; caps are reported.

Each grid is built through the public constructor ``AngularGrid(degree=d, method=m,
cache=False)`` so the loader and the 4 pi normalisation are on the path.

Oracle: |x_i| = 1; g.size == len(points) == len(weights) == table size; g.degree == d;
sum_i w_i Y_lm(x_i) = sqrt(4 pi) delta_l0 with Y_lm from the float64 normalised recursion of
vf/oracles/harm.py (validated at start-up against the mpmath definition, Cartesian closed forms
and the addition theorem).
"""

from __future__ import annotations

import warnings

import numpy as np

from vf import lattice
from vf.cli import WorkerResult
from vf.oracles import harm
from vf.props.c12 import METHODS, listing


def _gt(a, b):
    """a > b that is also True when a is NaN (a silent NaN must never pass a tolerance test)."""
    return ~(np.asarray(a) <= np.asarray(b))


LEVEL = "exploration"
RULE = (
    "every (method, degree, size) table entry x every (l,m), l<=degree (quick: l<=cap for the "
    "largest grids); one evaluation = one (grid, l, m) moment; a grid counts as distinct "
    "non-trivial per (method, degree, l) block whose reference value is decided by the oracle"
)
ASSUMPTIONS = [
    "float64 harmonic recursion oracle accurate to ~1e-12 (self-tested against mpmath/addition theorem)",
    "shipped data noise up to 1e-10*sqrt(4 pi) counts as rounding",
]

TOL_MOMENT = 1e-10 * np.sqrt(4 * np.pi)
TOL_NORM = 1e-12
L_QUICK = 30
COST_CAP_QUICK = 6e8


def _grid_case(arg):
    method, degree, size, lcap = arg
    from grid.angular import AngularGrid

    res = WorkerResult(section=method)
    case = {"method": method, "degree": degree, "size": size, "lcap": lcap}
    name = f"{method}_{degree}_{size}"
    try:
        with warnings.catch_warnings():
            warnings.simplefilter("ignore")
            g = AngularGrid(degree=degree, method=method, cache=False)
        pts = np.array(g.points, dtype=float)
        wts = np.array(g.weights, dtype=float)
    except Exception as exc:
        res.count()
        res.violation(
            f"{name}:cannot-construct",
            f"AngularGrid(degree={degree}, method={method}) raised {type(exc).__name__}: {exc}",
            case,
        )
        return res.as_dict()
    res.count()
    if not (
        g.size == size and len(pts) == size and len(wts) == size and int(g.degree) == degree
    ) or pts.shape != (size, 3):
        res.violation(
            f"{name}:size-or-degree-mismatch",
            f"{name}: size={g.size} len(points)={len(pts)} len(weights)={len(wts)} degree={g.degree}",
            case,
        )
        return res.as_dict()
    dev = float(np.max(np.abs(np.linalg.norm(pts, axis=1) - 1.0)))
    res.maximum("norm_deviation", dev)
    res.count()
    if not dev <= TOL_NORM:
        res.violation(
            f"{name}:points-off-unit-sphere",
            f"{name}: max | |x|-1 | = {dev:.3e}",
            case,
            deviation=dev,
        )
    # every other documented way of asking for this grid gives the same arrays (added after seeded change C02-C:
    # a method name that is not all lower case): by size, through the cache (first and second time), other spellings
    spell = {"lebedev": "Lebedev", "spherical": "SPHERICAL", "maxdet": "MaxDet", "ahrens_beylkin": "Ahrens_Beylkin"}[method]
    variants = (("by-size", dict(size=size, method=method, cache=False)),
                ("spelling", dict(degree=degree, method=spell, cache=False)),
                ("spelling-upper-by-size", dict(size=size, method=method.upper(), cache=False)),
                ("cache-first", dict(degree=degree, method=method, cache=True)),
                ("cache-second", dict(degree=degree, method=method, cache=True)),
                ("cache-spelling-by-size", dict(size=size, method=spell, cache=True)),
                ("no-cache-after-cache", dict(degree=degree, method=method, cache=False)))
    for vname, kw in variants:
        res.count()
        try:
            with warnings.catch_warnings():
                warnings.simplefilter("ignore")
                gv = AngularGrid(**kw)
            same = (np.asarray(gv.points).shape == pts.shape and np.array_equal(gv.points, pts) and np.array_equal(gv.weights, wts)
                    and int(gv.degree) == degree and gv.size == size)
        except Exception as exc:
            res.violation(f"{name}:variant:{vname}:raised:{type(exc).__name__}", f"AngularGrid({kw}) raised {type(exc).__name__}: {exc}",
                          dict(case, variant=vname))
            continue
        if not same:
            res.violation(f"{name}:variant:{vname}:differs", f"AngularGrid({kw}) differs from AngularGrid(degree={degree}, "
                          f"method={method!r}, cache=False): weight sums {float(np.sum(gv.weights))!r} vs {float(np.sum(wts))!r}",
                          dict(case, variant=vname))
    lmax = min(degree, lcap)
    mom = harm.moments_f64(lmax, pts, wts)
    ref = np.zeros_like(mom)
    ref[0] = np.sqrt(4 * np.pi)
    err = np.abs(mom - ref)
    res.count(len(mom))
    res.nontrivial(n=lmax + 1)
    worst = int(np.argmax(err))
    if not np.all(np.isfinite(mom)):
        res.violation(f"{name}:non-finite-moment", f"{name}: non-finite moments", case)
    elif err[worst] > TOL_MOMENT:
        bad = np.nonzero(_gt(err, TOL_MOMENT))[0]
        first_l = int(np.floor(np.sqrt(bad[0])))
        lm = harm.horton_lm(lmax)
        res.violation(
            f"{name}:not-exact:first-l={first_l}",
            f"{name}: sum w Y_lm deviates from sqrt(4pi) delta_l0 for {len(bad)} harmonics with "
            f"l<={lmax}; first at l={first_l}, worst {err[worst]:.3e} at (l,m)={lm[worst]}",
            case,
            worst=float(err[worst]),
            worst_lm=lm[worst],
            n_bad=int(len(bad)),
        )
    else:
        res.maximum("moment_residual_" + method, float(err[worst]))
    res.sample({"grid": name, "lmax_checked": lmax, "worst_residual": float(err[worst])})
    return res.as_dict()


def jobs_for(ctx):
    jobs = []
    capped = 0
    for method in METHODS:
        for degree, size in listing(method):
            cost = size * (degree + 1) ** 2
            if ctx.thorough or cost <= COST_CAP_QUICK:
                lcap = degree
            else:
                lcap = L_QUICK
                capped += 1
            jobs.append((method, degree, size, lcap))
    jobs.sort(key=lambda j: -j[2] * (min(j[1], j[3]) + 1) ** 2)
    return jobs, capped


def run(ctx):
    st = harm.selftest(lmax_mp=12 if not ctx.thorough else 20, lmax_add=130 if not ctx.thorough else 330)
    ctx.cov["oracle_selftest"] = st
    jobs, capped = jobs_for(ctx)
    ctx.cov["grids"] = len(jobs)
    ctx.cov["grids_with_capped_l"] = capped
    ctx.cov["l_cap_for_capped_grids"] = L_QUICK if capped else None
    ctx.cov["tolerances"] = {"moment": TOL_MOMENT, "norm": TOL_NORM}
    ctx.exhaustive = capped == 0
    n_samples = 0
    for res in lattice.pmap_unordered(_grid_case, jobs, ctx.workers):
        if n_samples >= 10:
            res["samples"] = []
        n_samples += len(res.get("samples", ()))
        ctx.merge(res)


def replay(ctx, case):
    ctx.merge(_grid_case((case["method"], case["degree"], case["size"], case["lcap"])))
