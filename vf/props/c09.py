"""C09 -- harmonic decomposition / interpolation on atomic grids is exact when band-limited.

Engine E2: 2 radial grids (Becke-Gauss-Chebyshev(12); linear Clenshaw-Curtis(9) with an r = 0
node) x degrees {uniform, 3-periodic mixed} x 4 angular methods x centres {0, c} x rotate {0, 7}
(64 grids) x BASIS functions  r^l h_k(r) Y_lm  for all (l, m) with l <= min_i d_i / 2 and three
radial shapes h_k (every claim is linear in the function, so the basis decides the span) x
evaluation points {grid points, the centre, +-z axis, generic near / far, seed-jittered off the
spline knots}.

Oracle: angular integrals = sqrt(4 pi) g_00(r_i); sum_i r_i^2 w_i (...) = grid integral;
spline_j(r_i) = g(r_i) delta_{j,(l,m)}; interpolant = f on grid points; at arbitrary points
= sum_j spline_j(r) Y_j (harmonics from vf/oracles/harm.py); Cartesian / spherical / radial-only
derivatives = derivatives of that same interpolant (6th-order central differences of the same
callable, and spline derivatives x oracle harmonics); int 4 pi r^2 avg(r) dr = total;
MolGrid.interpolate = sum_A atomic interpolants of w_A f.

Engine E1 (history clause): on one instance every order of {radial_component_splines(f1),
interpolate(f2), spherical_average(f3), integrate_angular_coordinates(f1)} up to length 3 gives
the results of fresh instances (lazy harmonic basis).
"""

from __future__ import annotations

import itertools
import warnings

import numpy as np

from vf import explore, lattice
from vf.cli import WorkerResult
from vf.oracles import harm


def _gt(a, b):
    """a > b that is also True when a is NaN (a silent NaN must never pass a tolerance test)."""
    return ~(np.asarray(a) <= np.asarray(b))


LEVEL = "exploration"
RULE = (
    "product of 64 atomic grids x basis functions r^l h_k(r) Y_lm (all l <= min degree/2, 3 radial "
    "shapes) x evaluation points; one evaluation = one compared number; distinct non-trivial = "
    "distinct (grid, l, m, shape, clause); plus an explicit-state exploration of call orders on one "
    "instance"
)
ASSUMPTIONS = [
    "angular grids are exact to their degree (C02), so projections of band-limited functions are exact",
    "central differences of order 6 with step 1e-4 inside one spline interval are exact to ~1e-9",
]

DEGREES = {"lebedev": ([11], [7, 11, 9]), "spherical": ([11], [7, 11, 9]), "maxdet": ([10], [6, 10, 8]),
           "ahrens_beylkin": ([14], [14, 19, 23])}
CENTRE = np.array([0.4, -0.7, 0.25])
SHAPES = (lambda r: np.exp(-r), lambda r: (0.3 + r) * np.exp(-r * r), lambda r: (1 + r * r) * np.exp(-r / 2))


def radial_grids():
    from grid.basegrid import OneDGrid
    from grid.onedgrid import ClenshawCurtis, GaussChebyshev
    from grid.rtransform import BeckeRTransform, LinearFiniteRTransform

    with warnings.catch_warnings():
        warnings.simplefilter("ignore")
        return {"becke-gc12": BeckeRTransform(1e-3, 1.2).transform_1d_grid(GaussChebyshev(12)),
                "linear-cc9-r0": LinearFiniteRTransform(0.0, 4.0).transform_1d_grid(ClenshawCurtis(9)),
                # a first shell at a tiny but non-zero radius (inside every "r is zero" threshold of the code, outside
                # exact zero): added after seeded change C09-F.  Used with the centre at the origin only and with radial
                # factors that do not vanish at the origin, so the l >= 1 components at that shell are visible.
                "tiny-first": OneDGrid(np.array([2e-9, 0.3, 0.8, 1.5, 2.4, 3.5]), np.array([1e-9, 0.3, 0.5, 0.7, 0.9, 1.1]), (0, np.inf))}


def build_grid(rname, method, mixed, ci, rot):
    from grid.atomgrid import AtomGrid

    rg = radial_grids()[rname]
    pat = DEGREES[method][1 if mixed else 0]
    degs = [pat[i % len(pat)] for i in range(rg.size)] if mixed else list(pat)
    centre = CENTRE if ci else np.zeros(3)
    with warnings.catch_warnings():
        warnings.simplefilter("ignore")
        return AtomGrid(rg, degrees=degs, center=centre, rotate=rot, method=method), rg, centre


def unit_and_r(points, centre):
    rel = np.asarray(points, dtype=float) - centre
    r = np.linalg.norm(rel, axis=1)
    unit = np.zeros_like(rel)
    nz = r > 0
    unit[nz] = rel[nz] / r[nz, None]
    unit[~nz] = np.array([0.0, 0.0, 1.0])
    return unit, r


def eval_points(rg, centre, seed):
    """centre, +-z axis, generic near/far; radii inside spline intervals (away from the knots)."""
    rp = np.asarray(rg.points)
    mids = 0.5 * (rp[:-1] + rp[1:])
    rng = np.random.default_rng([seed, 9])
    dirs = rng.normal(size=(6, 3))
    dirs /= np.linalg.norm(dirs, axis=1)[:, None]
    dirs = np.vstack([dirs, [[0, 0, 1.0]], [[0, 0, -1.0]], [[1.0, 0, 0]]])
    rad = np.concatenate([mids[[0, len(mids) // 3, len(mids) // 2, -2, -1]], mids[[1, 2]], mids[[len(mids) // 2]] * 1.0, mids[[1]]])
    rad = rad * (1 + lattice.jitter(seed, "rad", 0.0, 0.02))
    pts = centre + dirs * rad[:, None]
    # beyond the last shell and inside the first one (the interpolant continues its radial splines there)
    extra = [centre + dirs[0] * 1.3 * rp[-1], centre + dirs[3] * 1.05 * rp[-1]]
    if rp[0] > 1e-6:
        extra.append(centre + dirs[1] * 0.5 * rp[0])
    return np.vstack([pts, extra])


def fd6(fn, p, h):
    """6th-order central difference gradient of a callable on points p (N,3)."""
    g = np.zeros_like(p)
    for k in range(3):
        e = np.zeros(3)
        e[k] = h
        g[:, k] = (45 * (fn(p + e) - fn(p - e)) - 9 * (fn(p + 2 * e) - fn(p - 2 * e)) + (fn(p + 3 * e) - fn(p - 3 * e))) / (60 * h)
    return g


THOROUGH = [False]


def _grid_case(arg):
    rname, method, mixed, ci, rot, seed = arg
    res = WorkerResult(section=f"{method}")
    case = {"route": "grid", "rgrid": rname, "method": method, "mixed": mixed, "centre": ci, "rotate": rot}
    try:
        g, rg, centre = build_grid(rname, method, mixed, ci, rot)
    except Exception as exc:
        res.count()
        res.violation(f"build:raised:{type(exc).__name__}", f"{case}: {exc}", case)
        return res.as_dict()
    lcap = int(min(g.degrees)) // 2
    lbasis = int(max(g.degrees)) // 2
    unit, r = unit_and_r(g.points, centre)
    Y = harm.ylm_f64(lcap, unit)
    rp = np.asarray(rg.points)
    wr = np.asarray(rg.weights)
    q = eval_points(rg, centre, seed)
    uq, rq = unit_and_r(q, centre)
    Yq = harm.ylm_f64(lcap, uq)
    nrows_basis = (lbasis + 1) ** 2
    lm = harm.horton_lm(lcap)
    # every (l, m) in the thorough tier; the quick tier takes every second row beyond l = 2, with an offset that differs
    # between configurations so that the union over the configurations of one run is every row
    off = (ci + len(rname) + len(method) + int(mixed)) % 2
    if len(lm) <= 16 or THOROUGH[0]:
        rows = list(range(len(lm)))
    else:
        rows = sorted(set(list(range(9)) + list(range(9 + off, len(lm), 2)) + [len(lm) - 1]))
    for row in rows:
        l, m = lm[row]
        for si, shape in enumerate(SHAPES):
            gfun = (lambda x, l=l, shape=shape: x**l * shape(x)) if rname != "tiny-first" else (lambda x, l=l, shape=shape: (1.0 + 0.3 * l) * shape(x))
            f = gfun(r) * Y[row]
            c2 = dict(case, l=l, m=m, shape=si)
            tag = "band-limited"
            fscale = np.max(np.abs(f)) + 1e-300
            with warnings.catch_warnings():
                warnings.simplefilter("ignore")
                with np.errstate(all="ignore"):
                    # (1) angular integrals, (2) re-weighted sum
                    res.count(2)
                    ang = np.asarray(g.integrate_angular_coordinates(f.copy()), dtype=float)
                    want = np.sqrt(4 * np.pi) * gfun(rp) * (1.0 if row == 0 else 0.0)
                    res.nontrivial()
                    if ang.shape != rp.shape or _gt(np.max(np.abs(ang - want)), 1e-10 * (np.max(np.abs(gfun(rp))) * 4 + 1e-300)):
                        res.violation(f"{tag}:angular-integral", f"integrate_angular_coordinates of g(r) Y_({l},{m}) differs from "
                                      f"sqrt(4pi) g_00(r_i) by {np.max(np.abs(ang - want)):.3e}", c2)
                    if si == 0 and row in (0, 1, len(lm) - 1):
                        # several functions at once (leading axes): row-wise the single-function answers
                        stack = np.stack([f, 2.0 * f + 1.0, f[::-1].copy()])
                        many = np.asarray(g.integrate_angular_coordinates(stack), dtype=float)
                        one = np.stack([np.asarray(g.integrate_angular_coordinates(v.copy()), dtype=float) for v in stack])
                        if many.shape != one.shape or _gt(np.max(np.abs(many - one)), 1e-12 * (np.max(np.abs(one)) + 1e-300)):
                            res.violation(f"{tag}:angular-integral:stacked-functions", "integrate_angular_coordinates of three stacked functions "
                                          "differs from the three single-function calls", c2)
                    tot = float(g.integrate(f))
                    if _gt(abs(np.sum(rp**2 * wr * ang) - tot), 1e-10 * (np.sum(np.abs(g.weights * f)) + 1e-300)):
                        res.violation(f"{tag}:radial-sum-not-grid-integral", "sum_i r_i^2 w_i x angular integral differs from the grid integral", c2)
                    # (3) splines through g(r_i) delta
                    res.count()
                    spl = g.radial_component_splines(f.copy())
                    if len(spl) != nrows_basis:
                        res.violation(f"{tag}:number-of-splines", f"{len(spl)} splines for l_max//2 = {lbasis}", c2)
                        continue
                    vals = np.array([s(rp) for s in spl])
                    wantv = np.zeros_like(vals)
                    wantv[row] = gfun(rp)
                    if _gt(np.max(np.abs(vals - wantv)), 1e-10 * (np.max(np.abs(gfun(rp))) + 1e-300) * 4):
                        k = int(np.argmax(np.max(np.abs(vals - wantv), axis=1)))
                        res.violation(f"{tag}:splines-not-through-components", f"radial component of g Y_({l},{m}): spline row {k} deviates by "
                                      f"{np.max(np.abs(vals - wantv)):.3e} at the shells", c2)
                    # (4) interpolant on the grid points
                    res.count()
                    interp = g.interpolate(f.copy())
                    on = np.asarray(interp(g.points), dtype=float)
                    if _gt(np.max(np.abs(on - f)), 2e-10 * fscale * 4):
                        res.violation(f"{tag}:interpolant-not-f-on-grid-points", f"g Y_({l},{m}): max deviation {np.max(np.abs(on - f)):.3e} "
                                      f"(scale {fscale:.3e})", c2)
                    # (5) arbitrary points: spline(r) Y(direction)
                    res.count()
                    at = np.asarray(interp(q), dtype=float)
                    wantq = spl[row](rq) * Yq[row]
                    sc = np.max(np.abs(wantq)) + fscale
                    if _gt(np.max(np.abs(at - wantq)), 1e-9 * sc):
                        res.violation(f"{tag}:interpolant-not-splines-times-harmonics", f"g Y_({l},{m}): deviates by "
                                      f"{np.max(np.abs(at - wantq)):.3e} at arbitrary points", c2)
                    # (6) derivatives of that same interpolant
                    if si == 0 or row in (0, 2, len(lm) - 1):
                        res.count(3)
                        fn = lambda p: np.asarray(interp(p), dtype=float)
                        # points on the polar axis through the centre (and the centre itself) separately:
                        # there the spherical chain rule is singular
                        on_axis = np.linalg.norm(uq[:, :2], axis=1) < 1e-9
                        qa = q[on_axis]  # (the interpolant has a cusp at the centre itself: no gradient there)
                        gra = np.asarray(interp(qa, deriv=1), dtype=float)
                        refa = fd6(fn, qa, 1e-4)
                        if gra.shape != refa.shape or _gt(np.max(np.abs(gra - refa)), 2e-6 * (np.max(np.abs(refa)) + fscale)):
                            res.violation(f"{tag}:cartesian-derivative:on-polar-axis:zero-convention",
                                          f"g Y_({l},{m}): on the z axis through the centre the reported gradient "
                                          f"{gra[0].tolist()} is not the gradient of the interpolant {np.round(refa[0], 6).tolist()}", c2)
                        qq = q[(rq > 1e-6) & ~on_axis]
                        gr = np.asarray(interp(qq, deriv=1), dtype=float)
                        ref = fd6(fn, qq, 1e-4)
                        dscale = np.max(np.abs(ref)) + fscale
                        if gr.shape != ref.shape or _gt(np.max(np.abs(gr - ref)), 2e-6 * dscale):
                            res.violation(f"{tag}:cartesian-derivative-not-derivative-of-interpolant",
                                          f"g Y_({l},{m}): reported gradient differs from central differences of the same interpolant by "
                                          f"{np.max(np.abs(gr - ref)) if gr.shape == ref.shape else 'shape'} (scale {dscale:.3e})", c2)
                        uu, rr = unit_and_r(qq, centre)
                        rad1 = np.asarray(interp(qq, deriv=1, only_radial_deriv=True), dtype=float)
                        rad2 = np.asarray(interp(qq, deriv=2, only_radial_deriv=True), dtype=float)
                        rad3 = np.asarray(interp(qq, deriv=3, only_radial_deriv=True), dtype=float)
                        yy = harm.ylm_f64(lcap, uu)[row]
                        w1, w2, w3 = spl[row](rr, 1) * yy, spl[row](rr, 2) * yy, spl[row](rr, 3) * yy
                        if _gt(np.max(np.abs(rad1 - w1)), 1e-9 * (np.max(np.abs(w1)) + fscale)) or _gt(np.max(np.abs(rad2 - w2)), 1e-9 * (np.max(np.abs(w2)) + fscale)) \
                                or rad3.shape != w3.shape or _gt(np.max(np.abs(rad3 - w3)), 1e-9 * (np.max(np.abs(w3)) + fscale)):
                            res.violation(f"{tag}:radial-derivative", f"g Y_({l},{m}): radial-only derivatives differ from spline derivatives x harmonics", c2)
                        sph = np.asarray(interp(qq, deriv=1, deriv_spherical=True), dtype=float)
                        if sph.shape == (3 * len(qq),):
                            dr = sph[: len(qq)]
                            # radial part must be the directional derivative along r of the same interpolant
                            dirder = np.einsum("ij,ij->i", ref, uu)
                            if _gt(np.max(np.abs(dr - dirder)), 2e-6 * dscale):
                                res.violation(f"{tag}:spherical-derivative-radial-part", f"g Y_({l},{m}): d/dr differs from the radial "
                                              f"directional derivative", c2)
                            # angular parts: chain rule back to Cartesian must reproduce the gradient away from the z axis
                            th = np.arctan2(uu[:, 1], uu[:, 0])
                            ph = np.arccos(np.clip(uu[:, 2], -1, 1))
                            ok = np.sin(ph) > 1e-3
                            dth, dph = sph[len(qq): 2 * len(qq)], sph[2 * len(qq):]
                            ex = np.stack([-np.sin(th), np.cos(th), 0 * th], axis=1)
                            ep = np.stack([np.cos(th) * np.cos(ph), np.sin(th) * np.cos(ph), -np.sin(ph)], axis=1)
                            cart = dr[:, None] * uu + (dth / (rr * np.sin(ph) + 1e-300))[:, None] * ex + (dph / rr)[:, None] * ep
                            if np.any(ok) and _gt(np.max(np.abs(cart[ok] - ref[ok])), 5e-6 * dscale):
                                res.violation(f"{tag}:spherical-derivative-angular-parts", f"g Y_({l},{m}): (d/dr, d/dtheta, d/dphi) do not "
                                              f"combine to the gradient of the interpolant", c2)
                        else:
                            res.violation(f"{tag}:spherical-derivative-shape", f"shape {sph.shape}", c2)
                    # (7) spherical average integrates back to the total
                    res.count()
                    avg = g.spherical_average(f.copy())
                    av = np.asarray(avg(rp), dtype=float)
                    wanta = gfun(rp) / np.sqrt(4 * np.pi) * (1.0 if row == 0 else 0.0)
                    # "integrates back to the total": 4 pi avg(r_i) must be the angular integral at every
                    # shell (whose r^2 w - weighted sum is the grid integral by clause 2).  Comparing the
                    # summed integral directly would only measure how r^2 w of the outermost shells
                    # amplifies the rounding of the spline values.
                    if _gt(np.max(np.abs(av - wanta)), 1e-10 * (np.max(np.abs(gfun(rp))) + 1e-300) * 4) or \
                            _gt(np.max(np.abs(4 * np.pi * av - ang)), 1e-12 * (np.max(np.abs(ang)) + np.max(np.abs(gfun(rp))) + 1e-300)):
                        res.violation(f"{tag}:spherical-average", f"g Y_({l},{m}): spherical average differs from g_00/sqrt(4pi) or from "
                                      f"(1/4pi) x the angular integrals", c2)
    # objects handed out earlier keep their meaning when the same grid is used for another function afterwards (added after
    # seeded change C09-I: the interpolant read the grid's "latest splines" at evaluation time)
    res.count(3)
    with warnings.catch_warnings():
        warnings.simplefilter("ignore")
        with np.errstate(all="ignore"):
            f1 = np.exp(-0.7 * r) * (1.0 + Y[min(2, len(lm) - 1)])
            f2 = np.cos(r) * (0.5 - Y[min(1, len(lm) - 1)]) + 3.0
            i1, a1, s1 = g.interpolate(f1.copy()), g.spherical_average(f1.copy()), g.radial_component_splines(f1.copy())
            before = (np.asarray(i1(q), dtype=float), np.asarray(i1(q, deriv=1), dtype=float), np.asarray(a1(rp), dtype=float),
                      np.asarray(s1[0](rp), dtype=float))
            g.interpolate(f2.copy())
            g.spherical_average(f2.copy())
            g.radial_component_splines(f2.copy())
            g.integrate_angular_coordinates(f2.copy())
            after = (np.asarray(i1(q), dtype=float), np.asarray(i1(q, deriv=1), dtype=float), np.asarray(a1(rp), dtype=float),
                     np.asarray(s1[0](rp), dtype=float))
    # every routine is linear in the function values: the same answers, scaled, for 1e-20 f and 1e12 f (no absolute
    # "negligible" thresholds)
    with warnings.catch_warnings():
        warnings.simplefilter("ignore")
        with np.errstate(all="ignore"):
            for sfac in (1e-20, 1e12):
                res.count()
                i_s = np.asarray(g.interpolate(sfac * f1)(q), dtype=float) / sfac
                a_s = np.asarray(g.integrate_angular_coordinates(sfac * f1), dtype=float) / sfac
                a_1 = np.asarray(g.integrate_angular_coordinates(f1.copy()), dtype=float)
                if _gt(np.max(np.abs(i_s - before[0])), 1e-11 * (np.max(np.abs(before[0])) + 1e-300)) or \
                        _gt(np.max(np.abs(a_s - a_1)), 1e-12 * (np.max(np.abs(a_1)) + 1e-300)):
                    res.violation("homogeneity:not-linear-in-the-function-values", f"interpolation or angular integration of {sfac:g} f is not "
                                  f"{sfac:g} times that of f", case)
    if not all(x.shape == y.shape and np.array_equal(x, y, equal_nan=True) for x, y in zip(before, after)):
        res.violation("history:earlier-result-changed-by-later-call", "an interpolant / spherical average / spline list obtained for one "
                      "function gives different values after the same grid was used for another function", case)
    res.sample(dict(case, l_cap=lcap, basis_rows=nrows_basis))
    return res.as_dict()


def molecular(ctx):
    from grid.atomgrid import AtomGrid
    from grid.becke import BeckeWeights
    from grid.molgrid import MolGrid

    rg = radial_grids()["becke-gc12"]
    coords3 = np.array([[0.0, 0.0, -0.8], [0.1, 0.3, 0.9], [1.9, -0.4, 0.2]]) + lattice.jitter(ctx.seed, "mol", 0.0, 0.03)
    with warnings.catch_warnings():
        warnings.simplefilter("ignore")
        for natoms in (2, 3):
            coords = coords3[:natoms]
            nums = np.array([6, 8, 1])[:natoms]
            ats = [AtomGrid(rg, degrees=[11, 9, 7][a:a + 1], center=coords[a], rotate=(0, 7, 3)[a]) for a in range(natoms)]
            mg = MolGrid(nums, ats, BeckeWeights(order=3), store=True)
            d0 = np.sum((mg.points - coords[0]) ** 2, axis=1)
            d1 = np.sum((mg.points - coords[1]) ** 2, axis=1)
            pos = np.exp(-0.6 * d0) + 0.5 * np.exp(-0.9 * d1) * (1 + mg.points[:, 0]) ** 2
            # functions of either sign, sign-changing ones, and one that is EXACTLY zero on most of the far atoms' points
            # (steep Gaussian that underflows): added after seeded change C09-H (atoms whose w_A f has no positive value
            # were skipped as "vanishing")
            funcs = {"positive": pos, "negative": -pos, "sign-changing": pos * np.sin(2.0 * mg.points[:, 2] + 0.3),
                     "negative-with-exact-zeros": -np.exp(-40.0 * d0) - np.exp(-40.0 * d1)}
            q = np.vstack([eval_points(rg, coords[0], ctx.seed)[:5], eval_points(rg, coords[1], ctx.seed)[3:7]])
            for fname, f in funcs.items():
                total = mg.interpolate(f.copy())
                parts = []
                for a in range(natoms):
                    lo, hi = mg.indices[a], mg.indices[a + 1]
                    parts.append(ats[a].interpolate((mg.aim_weights * f)[lo:hi]))
                for kw in ({}, {"deriv": 1}, {"deriv": 1, "only_radial_derivs": True}):
                    ctx.count(len(q), section="molecular")
                    got = np.asarray(total(q, **kw), dtype=float)
                    kw2 = {("only_radial_deriv" if k == "only_radial_derivs" else k): v for k, v in kw.items()}
                    ref = sum(np.asarray(p(q, **kw2), dtype=float) for p in parts)
                    ctx.nontrivial(("mol", natoms, fname, repr(sorted(kw))), section="molecular")
                    if got.shape != ref.shape or _gt(np.max(np.abs(got - ref)), 1e-12 * (1 + np.max(np.abs(ref)))):
                        ctx.violation("molecular:not-sum-of-atomic-interpolants", f"MolGrid.interpolate({kw}) of a {fname} function on {natoms} atoms "
                                      f"differs from the sum of atomic interpolants of w_A f", {"route": "molecular", "kwargs": repr(kw)})
        f = pos
        # earlier molecular interpolant after a later one on the same (stored) grids
        ctx.count(section="molecular")
        m1 = mg.interpolate(pos.copy())
        b1 = np.asarray(m1(q), dtype=float)
        mg.interpolate((-2.0 * pos + 1.0).copy())
        if not np.array_equal(np.asarray(m1(q), dtype=float), b1):
            ctx.violation("molecular:earlier-interpolant-changed-by-later-call", "a molecular interpolant gives different values after the grid "
                          "interpolated another function", {"route": "molecular"})
        ctx.count(section="molecular")
        try:
            MolGrid(nums, ats, BeckeWeights(), store=False).interpolate(f)
            ctx.violation("molecular:interpolate-without-stored-grids-accepted", "no error without stored atomic grids", {"route": "molecular"})
        except ValueError:
            pass


# ------------------------------------------------------------------------------ E1 history clause
_FRESH = {}


class World:
    """One AtomGrid instance; events call the four routines that share the lazy harmonic basis."""

    EVENTS = (("S", 1), ("I", 2), ("A", 3), ("G", 1), ("S", 2), ("I", 1))

    def __init__(self, seed, rname="linear-cc9-r0", method="lebedev"):
        self.seed = seed
        self.cfg = (rname, method)
        self.g, self.rg, self.centre = build_grid(rname, method, True, 1, 7)
        self.violations = []
        self.ncalls = 0
        p = self.g.points
        self.f = {1: np.exp(-np.sum((p - self.centre) ** 2, axis=1)) * (1 + p[:, 0]),
                  2: np.cos(p[:, 1]) * np.exp(-0.5 * np.linalg.norm(p - self.centre, axis=1)),
                  3: 1.0 / (1.0 + np.sum((p - self.centre) ** 2, axis=1)) + 0.1 * p[:, 2]}
        self.q = eval_points(self.rg, self.centre, seed)

    def enabled(self):
        return list(self.EVENTS)

    def _run(self, grid, ev):
        kind, k = ev
        f = self.f[k].copy()
        with warnings.catch_warnings():
            warnings.simplefilter("ignore")
            with np.errstate(all="ignore"):
                if kind == "S":
                    return np.array([s(self.rg.points) for s in grid.radial_component_splines(f)])
                if kind == "I":
                    return np.asarray(grid.interpolate(f)(self.q), dtype=float)
                if kind == "A":
                    return np.asarray(grid.spherical_average(f)(self.rg.points), dtype=float)
                return np.asarray(grid.integrate_angular_coordinates(f), dtype=float)

    def apply(self, ev):
        out = self._run(self.g, ev)
        self.ncalls += 1
        key = (self.cfg, tuple(ev), self.seed)
        if key not in _FRESH:
            fresh, _, _ = build_grid(self.cfg[0], self.cfg[1], True, 1, 7)
            _FRESH[key] = self._run(fresh, ev)
        ref = _FRESH[key]
        if out.shape != ref.shape or not np.array_equal(out, ref):
            self.violations.append((f"history:{ev[0]}:differs-from-fresh-instance",
                                    f"{ev} after earlier calls on the same instance differs from a fresh instance by "
                                    f"{np.max(np.abs(out - ref)) if out.shape == ref.shape else 'shape'}", {}))
        return explore._digest(np.round(out, 12).tolist())

    def canon(self):
        """The only state the routines share is the lazily built basis (None / built); what it was
        built from is part of the key through its content digest."""
        b = self.g.basis
        return (self.cfg, None if b is None else explore._digest(np.round(np.asarray(b, dtype=float), 10).tolist()), min(self.ncalls, 1))


def dtype_forms(ctx):
    """Whole-number function values in an integer dtype, a read-only array, a non-contiguous view and evaluation points in an
    integer dtype / as float with negative zeros give what the float64 copies give (argument forms, lesson 14)."""
    for rname, method, ci, rot in (("linear-cc9-r0", "lebedev", 1, 7), ("becke-gc12", "maxdet", 0, 0)):
        g, rg, centre = build_grid(rname, method, True, ci, rot)
        n = g.size
        vi = ((np.arange(n) * 7) % 11 - 5).astype(np.int64)
        vf = vi.astype(float)
        ro = vf.copy()
        ro.setflags(write=False)
        wide = np.zeros((n, 2))
        wide[:, 0] = vf
        pts_i = np.array([[0, 0, 1], [1, -1, 0], [2, 1, 1], [0, 2, -1]])
        pts_f = pts_i.astype(float) + 0.0
        forms = {"int64": vi, "int32": vi.astype(np.int32), "read-only": ro, "strided-view": wide[:, 0]}
        ops = {
            "integrate": lambda v: np.atleast_1d(g.integrate(v)),
            "spherical_average": lambda v: g.spherical_average(v)(np.array([0.2, 0.9, 2.0])),
            "radial_component_splines": lambda v: np.array([sp(np.array([0.3, 1.4])) for sp in g.radial_component_splines(v)[:9]]),
            "interpolate": lambda v: g.interpolate(v)(pts_f),
            "interpolate-deriv1": lambda v: g.interpolate(v)(pts_f, deriv=1),
            "integrate_angular_coordinates": lambda v: g.integrate_angular_coordinates(v),
        }
        for oname, op in ops.items():
            with warnings.catch_warnings():
                warnings.simplefilter("ignore")
                try:
                    want = np.asarray(op(vf.copy()), dtype=float)
                except Exception as exc:
                    ctx.violation(f"dtype-forms:{oname}:float-raised:{type(exc).__name__}", f"{oname} with float values: {exc}", {"route": "dtype-forms"})
                    continue
                for fname, v in forms.items():
                    ctx.count(section="dtype-forms")
                    case = {"route": "dtype-forms", "op": oname, "form": fname, "rgrid": rname}
                    keep = np.array(v, copy=True)
                    try:
                        got = np.asarray(op(v), dtype=float)
                    except Exception as exc:
                        ctx.violation(f"dtype-forms:{oname}:{fname}:raised:{type(exc).__name__}", f"{oname} with {fname} function values raised "
                                      f"{type(exc).__name__}: {exc}; the float64 copy is accepted", case)
                        continue
                    ctx.nontrivial(("dtype-forms", rname, oname, fname), section="dtype-forms")
                    sc = np.max(np.abs(want)) + 1e-300
                    if got.shape != want.shape or _gt(np.max(np.abs(got - want)), 1e-12 * sc):
                        ctx.violation(f"dtype-forms:{oname}:{fname}:differs-from-float-copy", f"{oname} with {fname} function values differs from the "
                                      f"float64 copy by {np.max(np.abs(got - want)) if got.shape == want.shape else 'shape'}", case)
                    if not np.array_equal(keep, v):
                        ctx.violation(f"dtype-forms:{oname}:{fname}:values-modified", f"{oname} modified the caller's {fname} values", case)
        # the handed-out callables are functions of the CONTENTS of the array they are given: a work array evaluated, refilled
        # in place with other points, evaluated again (lesson of seeded change C15-J, applied here)
        with warnings.catch_warnings():
            warnings.simplefilter("ignore")
            pa = centre + np.array([[0.3, 0.2, -0.4], [1.0, -0.7, 0.2], [-0.5, 0.9, 1.1], [0.1, 0.1, 2.0]])
            pb = centre + np.array([[-0.8, 0.4, 0.3], [0.2, 1.3, -0.6], [0.6, -0.2, -1.5], [1.4, 0.5, 0.5]])
            f = g.interpolate(vf.copy())
            sa = g.spherical_average(vf.copy())
            for cname, fn, A, B in (("interpolant", lambda q: f(q), pa, pb), ("interpolant-deriv1", lambda q: f(q, deriv=1), pa, pb),
                                    ("interpolant-radial-deriv2", lambda q: f(q, deriv=2, only_radial_deriv=True), pa, pb),
                                    ("spherical-average", lambda q: sa(q), np.array([0.2, 0.9, 2.0]), np.array([1.3, 0.4, 0.05]))):
                ctx.count(section="dtype-forms")
                case = {"route": "dtype-forms", "op": cname, "form": "refilled-work-array", "rgrid": rname}
                try:
                    ref_b = np.asarray(fn(B.copy()), dtype=float)
                    buf = A.copy()
                    fn(buf)
                    buf[...] = B
                    got = np.asarray(fn(buf), dtype=float)
                except Exception as exc:
                    ctx.violation(f"dtype-forms:{cname}:refill:raised:{type(exc).__name__}", f"{cname} on a refilled work array: {exc}", case)
                    continue
                ctx.nontrivial(("dtype-forms", rname, cname, "refill"), section="dtype-forms")
                if got.shape != ref_b.shape or _gt(np.max(np.abs(got - ref_b)), 1e-12 * (np.max(np.abs(ref_b)) + 1e-300)):
                    ctx.violation(f"dtype-forms:{cname}:stale-after-points-refilled-in-place", f"{cname} evaluated on a work array, the array refilled in "
                                  f"place and evaluated again differs from a fresh array of the same points", case)
        # evaluation points in an integer dtype
        with warnings.catch_warnings():
            warnings.simplefilter("ignore")
            for deriv in (0, 1):
                ctx.count(section="dtype-forms")
                case = {"route": "dtype-forms", "op": "interpolate", "form": "integer-points", "deriv": deriv, "rgrid": rname}
                try:
                    f = g.interpolate(vf.copy())
                    a, b = np.asarray(f(pts_i, deriv=deriv), dtype=float), np.asarray(f(pts_f, deriv=deriv), dtype=float)
                except Exception as exc:
                    ctx.violation(f"dtype-forms:interpolate:integer-points:raised:{type(exc).__name__}", f"interpolant at integer-dtype points: {exc}", case)
                    continue
                ctx.nontrivial(("dtype-forms", rname, "integer-points", deriv), section="dtype-forms")
                if a.shape != b.shape or _gt(np.max(np.abs(a - b)), 1e-12 * (np.max(np.abs(b)) + 1e-300)):
                    ctx.violation("dtype-forms:interpolate:integer-points:differs-from-float-points", f"interpolant (deriv={deriv}) at integer-dtype points "
                                  f"differs from the same points in floats: {a} vs {b}", case)


def run(ctx):
    THOROUGH[0] = bool(ctx.thorough)
    jobs = []
    for rname in ("becke-gc12", "linear-cc9-r0"):
        for method in DEGREES:
            for mixed in (False, True):
                for ci in (0, 1):
                    for rot in (0, 7):
                        jobs.append((rname, method, mixed, ci, rot, ctx.seed))
    if not ctx.thorough:
        # quick: every (radial grid, method, mixed) with a deviation-bounded centre/rotation alphabet
        jobs = [j for j in jobs if (j[3], j[4]) in ((0, 0), (1, 7))]
    for method in DEGREES if ctx.thorough else ("lebedev", "maxdet"):
        for mixed in (False, True):
            for rot in (0, 7):
                jobs.append(("tiny-first", method, mixed, 0, rot, ctx.seed))
    for res in lattice.pmap(_grid_case, jobs, ctx.workers):
        if len(ctx.samples) > 8:
            res["samples"] = []
        ctx.merge(res)
    ctx.guarded("molecular", molecular, ctx)
    ctx.guarded("dtype-forms", dtype_forms, ctx)
    stats = []
    for rname, method in (("linear-cc9-r0", "lebedev"), ("becke-gc12", "maxdet")):
        stats.append(explore.explore(ctx, "vf.props.c09:World", 3, params={"rname": rname, "method": method}, twice_every=5,
                                     fresh_every=0, section="history"))
    ctx.cov["grids"] = len(jobs)
    ctx.cov["history_exploration"] = [{k: s[k] for k in ("states", "transitions", "depth_completed")} for s in stats]
    ctx.exhaustive = True


def replay(ctx, case):
    THOROUGH[0] = bool(ctx.thorough)
    if case.get("route") == "grid":
        ctx.merge(_grid_case((case["rgrid"], case["method"], case["mixed"], case["centre"], case["rotate"], ctx.seed)))
    elif case.get("route") == "molecular":
        molecular(ctx)
    elif case.get("route") == "dtype-forms":
        dtype_forms(ctx)
    else:
        explore.replay_history(ctx, case)
